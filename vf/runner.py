"""Check runner: sharded Hypothesis search, replay tier, known-finding protocol, evidence writer.

usage: python -m vf.runner <ID> [--tier quick|thorough] [--replay FILE] [--shards N] [--examples N]
exit 0: property held on everything explored; exit 1: VIOLATION line printed; exit 2: harness error.
"""
from __future__ import annotations

import argparse
import collections
import importlib
import json
import multiprocessing
import os
import sys
import time
import traceback

ROOT = os.path.dirname(os.path.dirname(os.path.abspath(__file__)))
if ROOT not in sys.path:
    sys.path.insert(0, ROOT)
REPO_PY = os.environ.get("VERIF_REPO_PYTHON", "/repo/python")


from vf.core.base import Violation  # noqa: E402

def setup_path():
    if REPO_PY not in sys.path[:1]:
        sys.path.insert(0, REPO_PY)
    if ROOT not in sys.path:
        sys.path.insert(0, ROOT)
    import lsst.daf.relation as r

    here = os.path.realpath(r.__file__)
    if not here.startswith(os.path.realpath(REPO_PY) + os.sep):
        print(f"HARNESS-ERROR: lsst.daf.relation imported from {here}, expected under {REPO_PY}")
        sys.exit(2)


def lib_frames(exc):
    """Names of the functions of lsst.daf.relation / sqlalchemy on the traceback, innermost last."""
    out = []
    tb = exc.__traceback__
    while tb is not None:
        fn = tb.tb_frame.f_code.co_filename
        if "/lsst/daf/relation/" in fn:
            out.append(("lib", os.path.basename(fn), tb.tb_frame.f_code.co_name))
        elif "/sqlalchemy/" in fn or "sqlite3" in fn:
            out.append(("db", os.path.basename(fn), tb.tb_frame.f_code.co_name))
        tb = tb.tb_next
    return out


def innermost_lib(exc):
    fr = [f for f in lib_frames(exc) if f[0] == "lib"]
    return f"{fr[-1][1]}:{fr[-1][2]}" if fr else None


def exc_sig(exc):
    return f"{type(exc).__name__}@{innermost_lib(exc)}"


class Stats:
    def __init__(self, max_samples=12):
        self.c = collections.Counter()
        self.evaluations = 0
        self.nontrivial = set()
        self.samples = []
        self.max_samples = max_samples
        self._sample_classes = set()
        self.extra = {}

    def mark_nontrivial(self, case_digest, sample_fn=None, cls=""):
        if case_digest not in self.nontrivial:
            self.nontrivial.add(case_digest)
            if sample_fn is not None and cls not in self._sample_classes and len(self.samples) < self.max_samples:
                self._sample_classes.add(cls)
                self.samples.append({"class": cls, "case": sample_fn()})

    def export(self):
        return {
            "c": dict(self.c),
            "evaluations": self.evaluations,
            "nontrivial": sorted(self.nontrivial),
            "samples": self.samples,
            "extra": self.extra,
        }


def load_check(cid):
    return importlib.import_module(f"vf.checks.{cid.lower()}")


def load_known(cid):
    path = os.path.join(ROOT, "known_findings.json")
    if not os.path.exists(path):
        return []
    with open(path) as f:
        data = json.load(f)
    return [e for e in data.get("findings", []) if e["property"] == cid]


CASE_TIMEOUT = int(os.environ.get("VERIF_CASE_TIMEOUT", "900"))


class _watchdog:
    """A single case normally takes milliseconds.  One that has not ended after CASE_TIMEOUT seconds is abandoned and the
    run ends as *inconclusive* (harness error, exit 2) - never as a violation, and never as a run that hangs."""

    def __enter__(self):
        import signal, threading

        self.on = threading.current_thread() is threading.main_thread() and hasattr(signal, "SIGALRM")
        if self.on:
            def fire(signum, frame):
                from vf.core.env import HarnessError

                raise HarnessError(f"a case did not finish within {CASE_TIMEOUT} s (inconclusive; VERIF_CASE_TIMEOUT)")

            self.old = signal.signal(signal.SIGALRM, fire)
            signal.alarm(CASE_TIMEOUT)
        return self

    def __exit__(self, *exc):
        if self.on:
            import signal

            signal.alarm(0)
            signal.signal(signal.SIGALRM, self.old)
        return False


def run_one(check, case, stats, open_keys):
    """Run one case.  Returns None, ('attributed', key) or raises Violation."""
    from vf.core.prog import OutOfDomain
    from vf.core.env import HarnessError

    stats.evaluations += 1
    try:
        with _watchdog():
            check.run_case(case, stats)
    except OutOfDomain as e:
        stats.c[f"discard:{e.reason}"] += 1
        return None
    except Violation as v:
        key = check.attribute(case, v) if hasattr(check, "attribute") else None
        v.attributed = key
        if key is not None and key in open_keys:
            stats.c[f"attributed_to_known:{key}"] += 1
            return ("attributed", key)
        raise
    except HarnessError:
        raise
    except Exception as e:
        if any(f[0] == "lib" for f in lib_frames(e)):
            v = Violation("internal-error", f"{exc_sig(e)}: {str(e)[:300]}", exc=e)
            v.__cause__ = e
            key = check.attribute(case, v) if hasattr(check, "attribute") else None
            v.attributed = key
            if key is not None and key in open_keys:
                stats.c[f"attributed_to_known:{key}"] += 1
                return ("attributed", key)
            raise v from e
        raise
    return None


def shard_main(args):
    """Runs in a worker process."""
    cid, tier, seed, shard, nshards, n_examples, open_keys, mode = args
    setup_path()
    try:  # a runaway case ends in MemoryError (classified like any other exception) instead of exhausting the machine
        import resource

        lim = int(os.environ.get("VERIF_WORKER_MEM_GB", "8")) << 30
        resource.setrlimit(resource.RLIMIT_AS, (lim, lim))
    except Exception:
        pass
    import hypothesis
    from hypothesis import HealthCheck, Phase, given, settings

    from vf.core import codec

    check = load_check(cid)
    stats = Stats()
    result = {"shard": shard, "failure": None, "harness_error": None}
    t0 = time.time()
    try:
        if mode == "exhaustive":
            try:
                check.exhaustive(tier, stats, shard, nshards, lambda case: run_one(check, case, stats, open_keys))
            except Violation as v:
                result["failure"] = _failure(check, v.case if hasattr(v, "case") else None, v)
        else:
            last = {}
            phases = [Phase.generate, Phase.shrink] if n_examples > 0 else [Phase.generate]

            @hypothesis.seed(seed * 1000 + shard)
            @settings(
                max_examples=max(n_examples, 1),
                deadline=None,
                database=None,
                derandomize=False,
                report_multiple_bugs=False,
                phases=phases,
                suppress_health_check=list(HealthCheck),
                print_blob=False,
            )
            @given(check.strategy(tier))
            def test(case):
                try:
                    run_one(check, case, stats, open_keys)
                except Violation as v:
                    last["case"] = case
                    last["v"] = v
                    raise

            try:
                test()
            except BaseException as e:
                if isinstance(e, (KeyboardInterrupt, SystemExit)):
                    raise
                if "case" in last:
                    # confirm outside Hypothesis, on a fresh run of the (shrunk) case
                    try:
                        run_one(check, last["case"], Stats(), open_keys)
                        if last["v"].extra.get("nondeterministic"):
                            # an observation that depends on more than the case (real free-running threads, or state a
                            # long-lived engine accumulated over earlier cases): the observed values are the evidence
                            # (they are in the violation's detail); the case alone cannot force it to repeat
                            last["v"].detail += " [observed in this run's history; not reproducible from the case alone]"
                            result["failure"] = _failure(check, last["case"], last["v"])
                        else:
                            result["harness_error"] = "failure did not reproduce on direct re-run (flaky): " + str(last["v"])[:500]
                    except Violation as v2:
                        result["failure"] = _failure(check, last["case"], v2)
                else:
                    result["harness_error"] = "".join(traceback.format_exception(type(e), e, e.__traceback__))[-3000:]
    except BaseException as e:  # noqa
        result["harness_error"] = "".join(traceback.format_exception(type(e), e, e.__traceback__))[-3000:]
    result["stats"] = stats.export()
    result["wall"] = time.time() - t0
    return result


def _failure(check, case, v):
    from vf.core import codec

    return {
        "case": codec.enc(case) if case is not None else None,
        "kind": v.kind,
        "detail": v.detail[:4000],
        "attributed": getattr(v, "attributed", None),
        "describe": _describe(check, case),
    }


def _describe(check, case):
    try:
        return check.describe(case) if case is not None else None
    except Exception as e:  # pragma: no cover
        return f"<describe failed: {e}>"


def replay_main(args):
    """Replay saved cases in a worker process.  Returns list of outcomes."""
    cid, paths, open_keys = args
    setup_path()
    from vf.core import codec

    check = load_check(cid)
    out = []
    for path in paths:
        with open(path) as f:
            doc = json.load(f)
        case = codec.dec(doc["case"])
        rec = {"path": path, "expect": doc.get("expect", "pass"), "key": doc.get("key"), "what": doc.get("what", "")}
        stats = Stats()
        try:
            run_one(check, case, stats, frozenset())
            rec["outcome"] = "pass"
            rec["discarded"] = any(k.startswith("discard:") for k in stats.c)
        except Violation as v:
            rec["outcome"] = "violation"
            rec["kind"] = v.kind
            rec["detail"] = v.detail[:2000]
            rec["attributed"] = getattr(v, "attributed", None)
        except BaseException as e:
            rec["outcome"] = "harness_error"
            rec["detail"] = "".join(traceback.format_exception(type(e), e, e.__traceback__))[-3000:]
        out.append(rec)
    return out


def write_violation(cid, failure, tag):
    from vf.core import codec  # noqa

    d = os.path.join(ROOT, "out", "violations", cid)
    os.makedirs(d, exist_ok=True)
    import hashlib

    h = hashlib.blake2b(json.dumps(failure["case"], sort_keys=True).encode(), digest_size=6).hexdigest()
    path = os.path.join(d, f"{tag}-{h}.json")
    with open(path, "w") as f:
        json.dump(
            {
                "property": cid,
                "expect": "pass",
                "key": failure.get("attributed"),
                "kind": failure["kind"],
                "detail": failure["detail"],
                "describe": failure.get("describe"),
                "case": failure["case"],
            },
            f,
            indent=1,
            default=str,
        )
    return path


def run_fuzz(cid, check, tier, seed, shards):
    """Thorough tier: libFuzzer (atheris) mutates the byte string that Hypothesis decodes into a case of the check's own
    strategy; coverage feedback comes from lsst.daf.relation, the oracle is the check's run_case.  One process per
    shard, fresh empty corpus each.  Returns a summary for the evidence file (with the per-shard results under
    'results'), or None when the check / tier has no such campaign."""
    import shutil
    import subprocess
    import tempfile

    per = getattr(check, "fuzz_runs", lambda t: default_fuzz_runs(check, t))(tier)
    if os.environ.get("VERIF_FUZZ_RUNS"):
        per = int(os.environ["VERIF_FUZZ_RUNS"])
    if not per:
        return None
    deps = os.path.join(ROOT, ".deps")
    probe = subprocess.run([sys.executable, "-c", f"import sys; sys.path.append({deps!r}); import atheris"], capture_output=True)
    if probe.returncode != 0:
        subprocess.run([os.path.join(ROOT, "setup.sh"), "atheris"], capture_output=True)
        probe = subprocess.run([sys.executable, "-c", f"import sys; sys.path.append({deps!r}); import atheris"], capture_output=True)
    if probe.returncode != 0:
        print("NOTE: atheris is not importable; the coverage-guided part of the thorough tier was skipped")
        return {"engine": "atheris", "skipped": "atheris not importable", "results": []}
    work = tempfile.mkdtemp(prefix=f"fuzz-{cid}-", dir=os.path.join(ROOT, "out") if os.path.isdir(os.path.join(ROOT, "out")) else None)
    nsh = max(1, min(shards, 16))
    procs = []
    env = dict(os.environ)
    env["PYTHONHASHSEED"] = "0"
    for i in range(nsh):
        out = os.path.join(work, f"res{i}.json")
        cmd = [sys.executable, "-m", "vf.fuzz", cid, tier, str(seed * 1000 + i), str(per), out, os.path.join(work, f"corpus{i}")]
        procs.append((i, out, subprocess.Popen(cmd, cwd=ROOT, env=env, stdout=subprocess.DEVNULL, stderr=subprocess.PIPE)))
    results = []
    summary = {"engine": "atheris (libFuzzer) driving hypothesis fuzz_one_input", "processes": nsh, "runs_per_process": per, "executions": 0, "corpus_entries": 0}
    for i, out, p in procs:
        _, err = p.communicate()
        doc = None
        if os.path.exists(out):
            with open(out) as f:
                doc = json.load(f)
        res = {"shard": i, "tag": "fuzz", "failure": None, "harness_error": None, "stats": doc["stats"] if doc else None, "wall": doc["wall"] if doc else 0}
        if p.returncode == 77 and doc and doc.get("failure"):
            res["failure"] = doc["failure"]
        elif p.returncode != 0:
            res["harness_error"] = f"fuzz process {i} exited with {p.returncode}: " + err.decode(errors="replace")[-2500:]
        if doc:
            summary["executions"] += doc["executions"]
        cdir = os.path.join(work, f"corpus{i}")
        if os.path.isdir(cdir):
            summary["corpus_entries"] += len(os.listdir(cdir))
        results.append(res)
    shutil.rmtree(work, ignore_errors=True)
    summary["valid_cases"] = sum(r["stats"]["evaluations"] for r in results if r["stats"])
    summary["results"] = results
    return summary


def default_fuzz_runs(check, tier):
    """libFuzzer executions per process (16 processes); about a third of them decode to a complete case."""
    if tier != "thorough":
        return 0
    return max(2000, check.budget(tier) // 8)


def main(argv=None):
    ap = argparse.ArgumentParser()
    ap.add_argument("id")
    ap.add_argument("--tier", default=os.environ.get("VERIF_TIER", "quick"), choices=["quick", "thorough"])
    ap.add_argument("--replay")
    ap.add_argument("--shards", type=int, default=int(os.environ.get("VERIF_SHARDS", "16")))
    ap.add_argument("--examples", type=int, default=None)
    ap.add_argument("--no-evidence", action="store_true")
    a = ap.parse_args(argv)
    cid = a.id.upper()
    seed = int(os.environ.get("VERIF_SEED", "1") or "1")
    t0 = time.time()
    setup_path()
    check = load_check(cid)
    known = load_known(cid)
    open_keys = frozenset(e["key"] for e in known if e.get("status") == "open")
    ctx = multiprocessing.get_context("spawn")

    if a.replay:
        with ctx.Pool(1) as pool:
            (rec,) = pool.apply(replay_main, ((cid, [os.path.abspath(a.replay)], open_keys),))
        print(json.dumps(rec, indent=1, default=str)[:6000])
        if rec["outcome"] == "violation":
            print(f"VIOLATION property={cid} replay={a.replay}")
            return 1
        if rec["outcome"] == "harness_error":
            return 2
        return 0

    violations = []
    harness_errors = []
    known_lines = []
    replayed = 0

    # ---- replay tier: witnesses of known findings and regression inputs
    rdir = os.path.join(ROOT, "replays", cid)
    paths = sorted(os.path.join(rdir, p) for p in os.listdir(rdir) if p.endswith(".json")) if os.path.isdir(rdir) else []
    pool = ctx.Pool(max(1, min(a.shards, 16)))
    try:
        replay_async = pool.apply_async(replay_main, ((cid, paths, open_keys),)) if paths else None

        # ---- search tier
        budget = a.examples if a.examples is not None else check.budget(a.tier)
        nsh = max(1, min(a.shards, max(1, budget // 25))) if budget else 1
        per = (budget + nsh - 1) // nsh if budget else 0
        jobs = []
        if budget:
            jobs += [(cid, a.tier, seed, i, nsh, per, open_keys, "search") for i in range(nsh)]
        if hasattr(check, "exhaustive"):
            xs = a.shards
            jobs += [(cid, a.tier, seed, i, xs, 0, open_keys, "exhaustive") for i in range(xs)]
        results = []
        for res in pool.imap_unordered(shard_main, jobs):
            results.append(res)
            if res["failure"] or res["harness_error"]:
                break
        if replay_async is not None:
            for rec in replay_async.get():
                replayed += 1
                if rec["outcome"] == "harness_error":
                    harness_errors.append(f"replay {rec['path']}: {rec['detail']}")
                elif rec["expect"] == "violation":
                    if rec["outcome"] == "violation" and rec.get("attributed") == rec["key"] and rec["key"] in open_keys:
                        known_lines.append(f"KNOWN-FINDING: property={cid} {rec['key']}: {rec['what']}")
                    elif rec["outcome"] == "violation":
                        violations.append((rec["path"], rec["kind"], rec["detail"]))
                    else:
                        print(f"NOTE: known finding {rec['key']} no longer reproduces ({os.path.relpath(rec['path'], ROOT)})")
                elif rec["outcome"] == "violation":
                    violations.append((rec["path"], rec["kind"], rec["detail"]))
    finally:
        pool.terminate()
        pool.join()

    # ---- coverage-guided campaign (thorough tier): atheris / libFuzzer over the same strategy and oracle
    fuzz_info = None
    if not violations and not harness_errors and not any(r["failure"] or r["harness_error"] for r in results):
        fuzz_info = run_fuzz(cid, check, a.tier, seed, a.shards)
        if fuzz_info:
            for fr in fuzz_info.pop("results"):
                results.append(fr)

    # ---- merge
    total = Stats()
    merged_extra = collections.defaultdict(collections.Counter)
    for res in results:
        st = res.get("stats")
        if st:
            total.c.update(st["c"])
            total.evaluations += st["evaluations"]
            total.nontrivial.update(st["nontrivial"])
            for s in st["samples"]:
                if s["class"] not in total._sample_classes and len(total.samples) < 10:
                    total._sample_classes.add(s["class"])
                    total.samples.append(s)
            for k, v in st["extra"].items():
                if isinstance(v, dict):
                    merged_extra[k].update(v)
        if res["harness_error"]:
            harness_errors.append(res["harness_error"])
        if res["failure"]:
            f = res["failure"]
            path = write_violation(cid, f, res.get("tag", "search"))
            violations.append((path, f["kind"], f["detail"]))

    wall = time.time() - t0
    for line in known_lines:
        print(line)
    attributed = {k.split(":", 1)[1]: v for k, v in total.c.items() if k.startswith("attributed_to_known:")}
    discards = {k.split(":", 1)[1]: v for k, v in total.c.items() if k.startswith("discard:")}
    classes = {k: v for k, v in sorted(total.c.items()) if not k.startswith(("attributed_to_known:", "discard:"))}
    exhaustive = bool(hasattr(check, "exhaustive")) and not harness_errors and not violations
    complete = len([r for r in results if r.get("tag") != "fuzz"]) == len(jobs)
    samples = total.samples or [{"note": "no non-trivial case was generated"}]
    coverage = {
        "evaluations": total.evaluations,
        "distinct_nontrivial": len(total.nontrivial),
        "rule": check.RULE,
        "samples": samples,
        "classes": classes,
        "discards_by_reason": discards,
        "attributed_to_known": attributed,
        "replayed_files": replayed,
        "shards": len(jobs),
        "shards_completed": len([r for r in results if r.get("tag") != "fuzz"]),
    }
    for k, v in merged_extra.items():
        coverage[k] = dict(v)
    if fuzz_info is not None:
        coverage["coverage_guided"] = fuzz_info
    if hasattr(check, "exhaustive"):
        coverage["exhaustive"] = bool(exhaustive and complete)
        coverage["exhaustive_note"] = getattr(check, "EXHAUSTIVE_NOTE", "")
    level = getattr(check, "LEVEL", "exploration")
    if level == "translation_validation":
        coverage["programs"] = total.evaluations
        coverage["disagreements_checked"] = total.c.get("compared", 0)
    evidence = {
        "property_id": cid,
        "tier": a.tier,
        "seed": seed,
        "level": level,
        "coverage": coverage,
        "assumptions": list(getattr(check, "ASSUMPTIONS", [])),
        "wall_s": round(wall, 2),
        "violations": len(violations),
    }
    if not a.no_evidence and not harness_errors:
        os.makedirs(os.path.join(ROOT, "evidence"), exist_ok=True)
        with open(os.path.join(ROOT, "evidence", f"{cid}.json"), "w") as f:
            json.dump(evidence, f, indent=1, default=str)
    print(
        f"{cid} tier={a.tier} seed={seed} evaluations={total.evaluations} nontrivial={len(total.nontrivial)} "
        f"attributed={attributed} discards={sum(discards.values())} replayed={replayed} wall={wall:.1f}s"
    )
    if harness_errors:
        for h in harness_errors[:3]:
            print("HARNESS-ERROR:", h)
        return 2
    if violations:
        for path, kind, detail in violations[:5]:
            print(f"  {kind}: {detail[:1500]}")
            print(f"VIOLATION property={cid} replay={os.path.relpath(path, ROOT)}")
        return 1
    return 0


if __name__ == "__main__":
    sys.exit(main())
