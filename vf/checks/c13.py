"""C13 — predicate folding, conjunction flattening and required-column sets are sound."""
from __future__ import annotations

import itertools

from hypothesis import strategies as st

from vf.core import codec
from vf.core.base import Violation
from vf.core.expr import (
    Undecodable,
    cols_e,
    cols_p,
    eval_e,
    eval_p,
    fmt_e,
    fmt_p,
    from_lib_p,
    lib_e,
    lib_p,
    size_p,
    st_expr,
    st_pred,
)
from vf.core.tags import VTag

ID = "C13"
LEVEL = "exploration"
TECHNIQUE = "property-based testing (Hypothesis) + exhaustive enumeration of predicate shapes to depth 2; exhaustive row domain per predicate"
LEVEL_TEXT = (
    "Bounded exploration with an exhaustive row domain: every generated predicate/expression is evaluated on all rows "
    "of {-2..2}^2 x {False,True}; all connective shapes to depth 2 over a 4-atom alphabet are enumerated completely "
    "(arity <= 3 at depth 1, <= 2 at depth 2); deeper shapes are sampled."
    "  Selection and flattening equivalence are also evaluated on rows holding not-a-number values."
)
LEVEL_NOTE = "trusts: reference evaluator in vf/core/expr.py; the iteration engine's convert_* callables are the subject, not the oracle"
RULE = (
    "case = a predicate AST (all node types incl. boolean column references, and/or arity 0-3 built with the dataclass "
    "constructors and with the logical_and/logical_or factories, nested literals) or a column expression; each is "
    "checked on every row of the exhaustive domain {-2..2}^2 x {False,True}.  Oracles: as_trivial() in {True,False} "
    "=> constant on all rows; flatten_logical_and False => false on all rows, else AND(conjuncts) == p on all rows; "
    "Selection(p).predicate == p on all rows; columns_required == syntactic column set and evaluating the iteration "
    "callable on the row restricted to columns_required gives the reference value.  Non-trivial: depth >= 2 with a "
    "literal under a connective; distinct by digest of the AST."
)
ASSUMPTIONS = ["NULL-free integer / boolean rows", "reference evaluator shares no code with the library"]
EXHAUSTIVE_NOTE = "all predicate shapes to depth 2 over atoms {TRUE, FALSE, a=1, bool:c}: not / and / or with arity 0..3 at depth 1 and 0..2 at depth 2"

A = VTag("a", True, 1)
B = VTag("b", True, 2)
C = VTag("c", False, 3)
ROWS = [{A: a, B: b, C: c} for a in range(-2, 3) for b in range(-2, 3) for c in (False, True)]
SMALL_ROWS = [{A: a, B: 0, C: c} for a in (0, 1) for c in (False, True)]


def budget(tier):
    return 5000 if tier == "quick" else 200000


@st.composite
def st_c13_pred(draw, depth):
    r = draw(st.integers(0, 99))
    if depth > 0 and r >= 35:
        if r < 50:
            return ("not", draw(st_c13_pred(depth - 1)))
        n = draw(st.integers(0, 3))
        return ("and" if r < 78 else "or", tuple(draw(st_c13_pred(depth - 1)) for _ in range(n)))
    r = draw(st.integers(0, 99))
    if r < 50:
        from vf.checks.c12 import st_c12_range

        return draw(st_pred([A, B], 0, 1, literals=False, ranges=st_c12_range()))
    if r < 65:
        return ("pref", C)
    return ("plit", draw(st.booleans()))


@st.composite
def st_case(draw):
    kind = draw(st.sampled_from(["pred", "pred", "pred", "expr"]))
    if kind == "expr":
        return ("expr", draw(st_expr([A, B], draw(st.integers(0, 3)))))
    p = draw(st_c13_pred(draw(st.integers(0, 4))))
    return ("pred", p, draw(st.booleans()))


def strategy(tier):
    return st_case()


def depth_p(p):
    k = p[0]
    if k in ("and", "or"):
        return 1 + max([depth_p(q) for q in p[1]], default=0)
    if k == "not":
        return 1 + depth_p(p[1])
    return 0


def has_literal_under_connective(p, under=False):
    k = p[0]
    if k == "plit":
        return under
    if k in ("and", "or"):
        return any(has_literal_under_connective(q, True) for q in p[1]) or (under and not p[1])
    if k == "not":
        return has_literal_under_connective(p[1], True)
    return False


_NAN = float("nan")
NAN_ROWS = [{A: _NAN, B: 1, C: True}, {A: 0, B: _NAN, C: False}, {A: _NAN, B: _NAN, C: True}]


def has_container(p):
    k = p[0]
    if k in ("inrange", "inseq"):
        return True
    if k in ("and", "or"):
        return any(has_container(q) for q in p[1])
    if k == "not":
        return has_container(p[1])
    return False


_FIXTURE = None


def fixture():
    """Two small iteration-engine relations used to put a predicate to work (join, selection, backtracking)."""
    global _FIXTURE
    if _FIXTURE is None:
        from lsst.daf.relation import iteration

        e1, e2 = iteration.Engine(name="E1"), iteration.Engine(name="E2")
        D = VTag("d", True, 4)
        left = e1.make_leaf({A, B, C}, iteration.RowSequence([{A: 1, B: 2, C: True}]), name="left")
        right = e1.make_leaf({A, D}, iteration.RowSequence([{A: 1, D: 5}]), name="right")
        _FIXTURE = (e1, e2, left, right)
    return _FIXTURE


def use_in_operations(lp, stats):
    from lsst.daf.relation import Join, Selection

    e1, e2, left, right = fixture()
    try:
        pj = Join(lp).partial(right)
        pj.columns_required
        pj2 = Join(lp).partial(left, is_lhs=True)
        pj2.columns_required
        sel = Selection(lp)
        sel.columns_required
        if lp.as_trivial() is not True:
            left.transferred_to(e2).with_rows_satisfying(lp, preferred_engine=e1)
            left.with_rows_satisfying(lp).with_only_columns({A})
    except Exception as e:
        from lsst.daf.relation import ColumnError, EngineError

        if not isinstance(e, (ColumnError, EngineError)):
            raise Violation("use-raised", f"{type(e).__name__}: {e}; predicate {lp}", exc=e)


def check_pred(p, raw, rows, stats):
    from lsst.daf.relation import Selection, flatten_logical_and, iteration

    ctx = fmt_p(p)
    try:
        lp = lib_p(p, raw_connectives=raw)
    except Exception as e:
        raise Violation("construct-raised", f"{type(e).__name__}: {e}; {ctx}", exc=e)
    truth = [eval_p(p, r) for r in rows]
    # (1) constant folding
    t = lp.as_trivial()
    if t is True or t is False:
        stats.c[f"as_trivial:{t}"] += 1
        if any(v is not t for v in truth):
            raise Violation("as_trivial-unsound", f"as_trivial()={t} but predicate is not constant: {ctx}")
        if not has_container(p):
            # rows are not restricted to integers: a not-a-number value compares unequal to itself
            for r in NAN_ROWS:
                if eval_p(p, r) is not t:
                    raise Violation("as_trivial-unsound", f"as_trivial()={t} but the predicate evaluates to {eval_p(p, r)} on row {_row(r)}: {ctx}")
            stats.c["as_trivial:checked-on-nan-rows"] += 1
    elif t is not None:
        raise Violation("as_trivial-type", f"as_trivial() returned {t!r}: {ctx}")
    else:
        stats.c["as_trivial:None"] += 1
    # (2) flattening
    fl = flatten_logical_and(lp)
    if fl is False:
        stats.c["flatten:False"] += 1
        if any(truth) or (not has_container(p) and any(eval_p(p, r) for r in NAN_ROWS)):
            raise Violation("flatten-false-unsound", f"flatten_logical_and is False but predicate holds on some row: {ctx}")
    else:
        stats.c[f"flatten:{min(len(fl), 4)}"] += 1
        try:
            conj = [from_lib_p(q) for q in fl]
        except Undecodable as e:
            raise Violation("flatten-undecodable", f"{e}; {ctx}")
        for r, v in zip(rows, truth):
            if all(eval_p(q, r) for q in conj) != v:
                raise Violation(
                    "flatten-not-equivalent", f"AND of conjuncts {[fmt_p(q) for q in conj]} differs from {ctx} on row {_row(r)}"
                )
    # (3) the predicate stored by a selection
    try:
        sel = Selection(lp)
        stored = from_lib_p(sel.predicate)
    except Undecodable as e:
        raise Violation("selection-undecodable", f"{e}; {ctx}")
    except Exception as e:
        raise Violation("selection-raised", f"{type(e).__name__}: {e}; {ctx}", exc=e)
    for r, v in zip(rows, truth):
        if eval_p(stored, r) != v:
            raise Violation("selection-not-equivalent", f"Selection stores {fmt_p(stored)} which differs from {ctx} on row {_row(r)}")
    if not has_container(p):
        # rows are not restricted to integers: with a not-a-number value "not (a < 0)" and "a >= 0" differ
        for r in NAN_ROWS:
            if bool(eval_p(stored, r)) != bool(eval_p(p, r)):
                raise Violation("selection-not-equivalent", f"Selection stores {fmt_p(stored)} which differs from {ctx} on row {_row(r)}", nan=True)
        if fl is not False:
            for r in NAN_ROWS:
                if all(eval_p(q, r) for q in conj) != bool(eval_p(p, r)):
                    raise Violation("flatten-not-equivalent", f"AND of conjuncts {[fmt_p(q) for q in conj]} differs from {ctx} on row {_row(r)}", nan=True)
        stats.c["selection:checked-on-nan-rows"] += 1
    if set(sel.columns_required) != set(sel.predicate.columns_required):
        raise Violation("selection-columns", f"Selection.columns_required {set(sel.columns_required)} vs predicate {ctx}")
    # (3b) using the predicate in operations must not change what it declares (objects are shared between relations)
    use_in_operations(lp, stats)
    # (4) required columns
    req = set(lp.columns_required)
    if req != set(cols_p(p)):
        raise Violation("columns_required-wrong", f"columns_required={req} but syntactic columns are {set(cols_p(p))}: {ctx}")
    eng = iteration.Engine()
    try:
        f = eng.convert_predicate(lp)
    except Exception as e:
        raise Violation("convert-raised", f"{type(e).__name__}: {e}; {ctx}", exc=e)
    for r, v in zip(rows, truth):
        sub = {k: r[k] for k in req}
        try:
            got = f(sub)
        except Exception as e:
            raise Violation("restricted-eval-raised", f"{type(e).__name__}: {e} on row {_row(sub)} restricted to columns_required; {ctx}", exc=e)
        if bool(got) != v:
            raise Violation("restricted-eval-differs", f"iteration callable gives {got} expected {v} on {_row(sub)}; {ctx}")
    check_subobjects(lp, ctx)


def lib_subobjects(obj):
    """Every expression / predicate / container object reachable from a library expression object."""
    out = []
    stack = [obj]
    while stack:
        o = stack.pop()
        out.append(o)
        for attr in ("args", "operands", "items"):
            v = getattr(o, attr, None)
            if isinstance(v, (tuple, list)):
                stack.extend(v)
        for attr in ("operand", "item", "container"):
            v = getattr(o, attr, None)
            if v is not None:
                stack.append(v)
    return out


def check_subobjects(obj, ctx):
    """After the outer object has been put to work, every object it is built from must still declare exactly the
    columns it reads (cached column sets are shared mutable state)."""
    from lsst.daf.relation import ColumnExpression, Predicate

    for o in lib_subobjects(obj):
        try:
            if isinstance(o, Predicate):
                want = set(cols_p(from_lib_p(o)))
            elif isinstance(o, ColumnExpression):
                from vf.core.expr import from_lib_e

                want = set(cols_e(from_lib_e(o)))
            else:
                continue
        except Undecodable:
            continue
        if set(o.columns_required) != want:
            raise Violation(
                "columns_required-wrong", f"sub-expression '{o}' of {ctx} declares columns_required={set(o.columns_required)} but reads {want}"
            )


def check_expr(e, rows, stats):
    from lsst.daf.relation import iteration

    ctx = fmt_e(e)
    le = lib_e(e)
    req = set(le.columns_required)
    if req != set(cols_e(e)):
        raise Violation("columns_required-wrong", f"columns_required={req} but syntactic columns are {set(cols_e(e))}: {ctx}")
    f = iteration.Engine().convert_column_expression(le)
    for r in rows:
        sub = {k: r[k] for k in req}
        try:
            got = f(sub)
        except Exception as ex:
            raise Violation("restricted-eval-raised", f"{type(ex).__name__}: {ex} on {_row(sub)}; {ctx}", exc=ex)
        if got != eval_e(e, r):
            raise Violation("restricted-eval-differs", f"iteration callable gives {got} expected {eval_e(e, r)} on {_row(sub)}; {ctx}")
    check_subobjects(le, ctx)


def _row(r):
    return {str(k): v for k, v in r.items()}


def run_case(case, stats, rows=None):
    rows = rows or ROWS
    if case[0] == "expr":
        stats.c["kind:expr"] += 1
        check_expr(case[1], rows, stats)
        from vf.core.expr import size_e

        if size_e(case[1]) >= 2:
            stats.mark_nontrivial(codec.digest(case), lambda: describe(case), cls="expr")
        return
    _, p, raw = case
    stats.c["kind:pred"] += 1
    check_pred(p, raw, rows, stats)
    d = depth_p(p)
    stats.c[f"depth:{min(d, 4)}"] += 1
    if d >= 2 and has_literal_under_connective(p):
        stats.mark_nontrivial(codec.digest(case), lambda: describe(case), cls=f"pred/depth={min(d, 4)}/raw={raw}")


def describe(case):
    if case[0] == "expr":
        return {"expression": fmt_e(case[1])}
    return {"predicate": fmt_p(case[1]), "raw_connective_constructors": case[2]}


def exhaustive(tier, stats, shard, nshards, run):
    atoms = [("plit", True), ("plit", False), ("eq", ("ref", A), ("lit", 1)), ("pref", C)]

    def level(prev, max_arity):
        out = list(prev)
        out += [("not", q) for q in prev]
        for conn in ("and", "or"):
            for n in range(0, max_arity + 1):
                out += [(conn, tuple(c)) for c in itertools.product(prev, repeat=n)]
        return out

    d1 = level(atoms, 3)
    idx = 0
    done = 0

    def gen():
        for q in d1:
            yield q
        for q in d1:
            yield ("not", q)
        for conn in ("and", "or"):
            for n in range(0, 3):
                for c in itertools.product(d1, repeat=n):
                    yield (conn, tuple(c))

    for p in gen():
        idx += 1
        if idx % nshards != shard:
            continue
        for raw in (True,):
            stats.evaluations += 1
            try:
                check_pred(p, raw, SMALL_ROWS, stats)
            except Violation as v:
                v.case = ("pred", p, raw)
                v.attributed = None
                raise
            done += 1
            if depth_p(p) >= 2 and has_literal_under_connective(p):
                stats.mark_nontrivial(codec.digest(p), lambda: {"predicate": fmt_p(p)}, cls="exhaustive-depth2")
    stats.c["exhaustive_shapes"] += done


def attribute(case, v):
    return None
