"""C17 — SQL conform is idempotent, content-preserving and keeps SELECT markers coherent."""
from __future__ import annotations

from hypothesis import strategies as st

from vf.core import codec
from vf.core.base import Violation
from vf.core.env import DatabaseError, Env
from vf.core.expr import lib_e, lib_p
from vf.core.gen import Cfg, st_program
from vf.core.prog import (
    BuildError,
    build_all,
    children,
    compare,
    describe_case,
    ev_bag,
    fmt,
    kinds,
    lib_nodes,
    n_ops,
    natural_common,
    schema,
    walk,
)
from vf.core.sqlh import CompileError, compile_and_run, select_levels, sql_text
from vf.checks.c02 import is_order_loss

ID = "C17"
LEVEL = "exploration"
TECHNIQUE = "property-based testing (Hypothesis): conform() on factory-built and on raw constructor-built SQL trees, structural walk of every SELECT marker, SQLite differential for raw trees"
LEVEL_TEXT = (
    "Bounded exploration: (a) every relation the factories build in the SQL engine must be a Select that conform() "
    "returns unchanged; (b) raw trees assembled bottom-up with the public dataclass constructors over bare leaves (no "
    "Select anywhere) are conformed, compiled, run on SQLite and compared with direct evaluation; (c) every Select "
    "marker of every conformed tree is walked: target -> [slice] [deduplication] [projection] [sort] -> skip_to, and "
    "is_compound <=> skip_to is a chain; (d) factory methods (the documented no-ops and real operations) applied to the "
    "unconformed raw tree must return conformed Selects with the right rows; (e) one engine conforms a series of "
    "short-lived raw trees whose operation objects are kept while the trees are dropped; (f) multi-engine bases with a "
    "final operation under every preferred-engine option: whatever lands in the SQL engine is a conformed Select.  "
    "Programs are sampled (<= 8 / 12 operations); plus the exhaustive SELECT-rule matrix."
    "  Results of optioned requests that contain Selects and transfers are processed (Processor.process): the SELECT "
    "markers of the returned tree must be coherent and conform must return it unchanged."
)
LEVEL_NOTE = "trusts: ev_bag labels; raw trees are well-formed by construction (columns from applied_columns, resolved join columns); P4, P8"
RULE = (
    "case = SQL program (generator of C02) built twice: through the factories and as a raw tree from dataclass "
    "constructors.  Oracles: conform(r) is r and isinstance(r, Select) for factory relations (root and prefixes); "
    "conform(raw) raises the row-order-loss error or returns a Select with conform(result) is result whose SQLite rows "
    "compare equal to ev_bag; every Select marker is structurally coherent; factory calls on the raw tree return Selects "
    "(conform-idempotent, rows equal to ev_bag of the extended program); results of optioned requests that live in the "
    "SQL engine are Selects.  Non-trivial: >= 2 Select levels in the "
    "factory tree or a raw tree with >= 3 operations; distinct by case digest."
)
ASSUMPTIONS = ["P4, P8", "raw trees only use Calculation, Projection, Selection, Deduplication, Sort, Slice, Chain, Join over LeafRelation"]
EXHAUSTIVE_NOTE = "SELECT-rule matrix of vf/core/matrix.py (one further operation; all bases)"


def cfg(tier):
    return Cfg(engines=(0,), max_ops=8 if tier == "quick" else 12, p_binary=0.2, avoid=frozenset(["D9", "D10", "D11"]), prelude=0.4)


def budget(tier):
    return 3000 if tier == "quick" else 80000


def strategy(tier):
    from vf.checks import c03

    # weights: mostly single-engine SQL programs; some (multi-engine base, final operation with options) cases of C03
    return st.one_of(st_program(cfg(tier)), st_program(cfg(tier)), st_program(cfg(tier)), st.tuples(st.just("opt"), c03.st_case(tier)))


# ---------------------------------------------------------------- marker coherence


def check_marker(sel):
    from lsst.daf.relation import BinaryOperationRelation, Chain, UnaryOperationRelation

    node = sel.target
    cols_seen = None
    slots = [
        ("slice", sel.slice if sel.has_slice else None, lambda op, n: False),
        ("deduplication", sel.deduplication, lambda op, n: False),
        ("projection", sel.projection, lambda op, n: set(op.columns) == set(n.columns)),
        ("sort", sel.sort if sel.has_sort else None, lambda op, n: False),
    ]
    for name, op, does_nothing in slots:
        if op is None:
            continue
        if isinstance(node, UnaryOperationRelation) and node.operation == op:
            node = node.target
            continue
        if does_nothing(op, node):
            continue
        return f"recorded {name} {op} is not the next operation below the marker (found {type(node).__name__} {str(node)[:80]})"
    if node is not sel.skip_to:
        return f"walking target through the recorded operations ends at '{str(node)[:100]}', not at skip_to '{str(sel.skip_to)[:100]}'"
    compound = isinstance(sel.skip_to, BinaryOperationRelation) and isinstance(sel.skip_to.operation, Chain)
    if bool(sel.is_compound) != compound:
        return f"is_compound={sel.is_compound} but skip_to is {'a' if compound else 'not a'} chain"
    if sel.skip_to.engine is not sel.engine:
        return "skip_to lives in another engine"
    return None


def check_tree_markers(rel, what):
    from lsst.daf.relation.sql import Select

    n = 0
    for r in lib_nodes(rel):
        if isinstance(r, Select):
            n += 1
            bad = check_marker(r)
            if bad:
                raise Violation("marker-incoherent", f"{what}: {bad}; marker {str(r)[:300]}", symptom=bad[:40])
    return n


# ---------------------------------------------------------------- raw trees


def build_raw(prog, env, leaves, memo, ops=None):
    """Assemble the tree with the public dataclass constructors only (no Select, no factory methods).

    ``ops`` optionally shares the operation objects between several assemblies of the same program (user code that
    keeps operations around and applies them to temporary trees)."""
    from lsst.daf.relation import (
        BinaryOperationRelation,
        Calculation,
        Chain,
        Deduplication,
        Join,
        LeafRelation,
        Predicate,
        Projection,
        Selection,
        Slice,
        Sort,
        SortTerm,
        UnaryOperationRelation,
    )

    if id(prog) in memo:
        return memo[id(prog)]
    k = prog[0]
    if ops is not None and id(prog) in ops:
        op = ops[id(prog)]
        if k in ("chain", "join"):
            l, r = build_raw(prog[1], env, leaves, memo, ops), build_raw(prog[2], env, leaves, memo, ops)
            out = BinaryOperationRelation(operation=op, lhs=l, rhs=r, columns=op.applied_columns(l, r))
        else:
            t = build_raw(prog[1], env, leaves, memo, ops)
            out = UnaryOperationRelation(operation=op, target=t, columns=op.applied_columns(t))
        memo[id(prog)] = out
        return out
    if k == "leaf":
        wrapped = env.leafrels[prog[1]]
        bare = wrapped
        while not isinstance(bare, LeafRelation):
            bare = bare.target
        out = bare
    elif k in ("chain", "join"):
        l, r = build_raw(prog[1], env, leaves, memo, ops), build_raw(prog[2], env, leaves, memo, ops)
        if k == "chain":
            op = Chain()
        else:
            common = frozenset(natural_common(schema(prog[1], leaves), schema(prog[2], leaves)))
            pred = lib_p(prog[3]) if prog[3] is not None else Predicate.literal(True)
            op = Join(pred, min_columns=common, max_columns=common)
        out = BinaryOperationRelation(operation=op, lhs=l, rhs=r, columns=op.applied_columns(l, r))
    else:
        t = build_raw(prog[1], env, leaves, memo, ops)
        if k == "calc":
            op = Calculation(prog[2], lib_e(prog[3]))
        elif k == "proj":
            op = Projection(frozenset(prog[2]))
        elif k == "sel":
            op = Selection(lib_p(prog[2]))
        elif k == "dedup":
            op = Deduplication()
        elif k == "sort":
            op = Sort(tuple(SortTerm(lib_e(e), asc) for e, asc in prog[2]))
        elif k == "slice":
            op = Slice(prog[2], prog[3])
        else:
            raise AssertionError(prog)
        out = UnaryOperationRelation(operation=op, target=t, columns=op.applied_columns(t))
    memo[id(prog)] = out
    if ops is not None and k != "leaf":
        ops[id(prog)] = out.operation
    return out


def factory_calls_on_raw(prog, env, leaves, raw, stats):
    """(d) factory methods applied to an unconformed SQL tree: the result is a conformed Select with the right rows."""
    from lsst.daf.relation import Identity, Predicate
    from lsst.daf.relation.sql import Select

    cols = sorted(schema(prog, leaves), key=lambda c: c.qualified_name)
    calls = [
        ("with_only_columns(all)", lambda r: r.with_only_columns(set(r.columns)), prog),
        ("[0:]", lambda r: r[0:], prog),
        ("sorted([])", lambda r: r.sorted([]), prog),
        ("with_rows_satisfying(True)", lambda r: r.with_rows_satisfying(Predicate.literal(True)), prog),
        ("Identity().apply", lambda r: Identity().apply(r), prog),
        ("transferred_to(own engine)", lambda r: r.transferred_to(r.engine), prog),
        ("without_duplicates()", lambda r: r.without_duplicates(), ("dedup", prog)),
        ("[1:3]", lambda r: r[1:3], ("slice", prog, 1, 3)),
        ("chain(itself)", lambda r: r.chain(r), ("chain", prog, prog)),
    ]
    if cols:
        calls.append(("with_only_columns(first)", lambda r: r.with_only_columns({cols[0]}), ("proj", prog, (cols[0],))))
    pick = int(codec.digest((prog,))[:6], 16)
    for i, (label, call, expected) in enumerate(calls):
        try:
            out = call(raw)
        except Exception as e:
            if is_order_loss(e):
                stats.c["raw-factory:order-loss-refused"] += 1
                continue
            raise Violation("raw-factory-raised", f"{label} on raw tree raised {type(e).__name__}: {e}; raw {raw}", exc=e)
        stats.c["raw-factory:calls"] += 1
        if not isinstance(out, Select):
            raise Violation("factory-result-not-select", f"{label} applied to the unconformed SQL tree {raw} returned {type(out).__name__} {out}", symptom=label)
        if env.sql.conform(out) is not out:
            raise Violation("conform-not-idempotent", f"{label} applied to the unconformed SQL tree {raw} returned {out}, which conform() replaces")
        check_tree_markers(out, f"{label} on raw {fmt(prog, leaves)}")
        if i % 3 == pick % 3:
            try:
                res = ev_bag(expected, leaves)
                outs, ex = compile_and_run(env, out)
            except (CompileError, DatabaseError):
                stats.c["raw-factory:uncompilable-or-db-error"] += 1
                continue
            for which, rows in zip(("forward", "reverse"), outs):
                bad = compare(res, rows)
                if bad:
                    raise Violation("raw-factory-changed-rows", f"[{which} scan] {label} on raw tree: {bad}; program {fmt(expected, leaves)}; result {out}; SQL {sql_text(ex)[:600]}")
            stats.c["raw-factory:compared"] += 1


def temporaries(prog, env, leaves, stats):
    """(e) one long-lived engine conforming a series of short-lived hand-built trees (operations kept, trees dropped)."""
    subs = [n for n in walk(prog) if n[0] != "leaf" and all(k in RAW_KINDS for k in kinds(n))]
    if len(subs) < 2:
        return
    ops = {}
    order = subs + subs[::-1]
    for sub in order[:8]:
        raw = build_raw(sub, env, leaves, {}, ops)
        try:
            conformed = env.sql.conform(raw)
        except Exception as e:
            if is_order_loss(e):
                del raw
                continue
            raise Violation("conform-raised", f"conform(raw) raised {type(e).__name__}: {e}; raw tree {raw}", exc=e)
        if set(conformed.columns) != set(schema(sub, leaves)):
            raise Violation("conform-changed-columns", f"temporary tree {raw} conformed to {conformed} with columns {set(conformed.columns)}")
        try:
            res = ev_bag(sub, leaves)
            outs, ex = compile_and_run(env, conformed)
        except (CompileError, DatabaseError):
            outs = None
        if outs is not None:
            bad = compare(res, outs[0])
            if bad:
                raise Violation("conform-changed-rows", f"temporary tree: {bad}; program {fmt(sub, leaves)}; raw {raw}; conformed {conformed}; SQL {sql_text(ex)[:600]}")
            stats.c["temporaries:compared"] += 1
        del raw, conformed


RAW_KINDS = ("leaf", "calc", "proj", "sel", "dedup", "sort", "slice", "chain", "join")


def run_case(case, stats):
    from lsst.daf.relation import ColumnError, EngineError
    from lsst.daf.relation.sql import Select

    if case[0] == "opt":
        return run_opt_case(case, stats)
    universe, leaves, prog = case
    env = Env(leaves)
    try:
        # (a) factory-built relations are conformed
        rels = {}
        try:
            build_all(prog, env, rels)
        except BuildError as b:
            if not (is_order_loss(b.exc) or isinstance(b.exc, (ColumnError, EngineError))):
                raise Violation("build-raised", f"{fmt(b.node, leaves)}: {type(b.exc).__name__}: {b.exc}", exc=b.exc)
            stats.c["build:refused"] += 1
        markers = 0
        for node in walk(prog):
            rel = rels.get(id(node))
            if rel is None:
                continue
            if not isinstance(rel, Select):
                raise Violation("factory-result-not-select", f"{fmt(node, leaves)} -> {type(rel).__name__} {rel}")
            try:
                again = env.sql.conform(rel)
            except Exception as e:
                raise Violation("conform-raised", f"conform of factory relation raised {type(e).__name__}: {e}; {rel}", exc=e)
            if again is not rel:
                raise Violation("conform-not-idempotent", f"conform(r) is not r for factory-built {rel}; program {fmt(node, leaves)}")
        if id(prog) in rels:
            markers = check_tree_markers(rels[id(prog)], f"factory tree of {fmt(prog, leaves)}")
            stats.c["markers_checked"] += markers
        # (b) raw tree
        raw_ok = all(k in ("leaf", "calc", "proj", "sel", "dedup", "sort", "slice", "chain", "join") for k in kinds(prog))
        raw_ops = 0
        if raw_ok and prog[0] != "leaf":
            raw = build_raw(prog, env, leaves, {})
            try:
                conformed = env.sql.conform(raw)
            except Exception as e:
                if is_order_loss(e):
                    stats.c["raw:order-loss-refused"] += 1
                    conformed = None
                else:
                    raise Violation("conform-raised", f"conform(raw) raised {type(e).__name__}: {e}; raw tree {raw}", exc=e)
            if conformed is not None:
                raw_ops = n_ops(prog)
                if not isinstance(conformed, Select):
                    raise Violation("conform-result-not-select", f"{type(conformed).__name__}; raw {raw}")
                if env.sql.conform(conformed) is not conformed:
                    raise Violation("conform-not-idempotent", f"conform(conform(raw)) is a new object; raw {raw}")
                if set(conformed.columns) != set(schema(prog, leaves)):
                    raise Violation("conform-changed-columns", f"{set(conformed.columns)} vs {set(schema(prog, leaves))}; raw {raw}")
                stats.c["markers_checked"] += check_tree_markers(conformed, f"conform(raw) of {fmt(prog, leaves)}")
                res = ev_bag(prog, leaves)
                try:
                    outs, ex = compile_and_run(env, conformed)
                except (CompileError, DatabaseError) as e:
                    stats.c["raw:uncompilable-or-db-error"] += 1
                    outs = None
                if outs is not None:
                    stats.c["raw:compared"] += 1
                    for which, rows in zip(("forward", "reverse"), outs):
                        bad = compare(res, rows)
                        if bad:
                            raise Violation(
                                "conform-changed-rows",
                                f"[{which} scan] {bad}; program {fmt(prog, leaves)}; raw {raw}; conformed {conformed}; SQL {sql_text(ex)[:600]}",
                            )
            factory_calls_on_raw(prog, env, leaves, raw, stats)
            temporaries(prog, env, leaves, stats)
        levels = select_levels(rels[id(prog)]) if id(prog) in rels else 0
        if levels >= 2 or raw_ops >= 3:
            stats.mark_nontrivial(codec.digest(case), lambda: describe(case), cls=f"levels={min(levels, 4)}/raw_ops={min(raw_ops, 6)}")
    finally:
        env.close()


def run_opt_case(case, stats):
    """(f) relations that reach the SQL engine through preferred-engine options (backtracking, inserted transfers)."""
    import itertools

    from lsst.daf.relation import ColumnError, EngineError
    from lsst.daf.relation.sql import Select

    from vf.checks import c03

    universe, leaves, S, base, final, *rest = case[1]
    env = Env(leaves)
    try:
        rels = {}
        try:
            build_all(base, env, rels)
        except BuildError:
            return
        root = rels[id(base)]
        fixed_rel = env.leafrels[final[2][1]] if final[0] == "join" else None
        seen_sql = 0
        processed_budget = 3
        for pref, bits in itertools.product((0, 1, 2) if final[0] != "join" else (0,), range(8 if final[0] != "join" else 4)):
            o = dict(backtrack=bool(bits & 1), transfer=bool(bits & 2))
            if final[0] != "join":
                o["require_preferred_engine"] = bool(bits & 4)
                o["preferred_engine"] = env.engines[pref]
            label = f"preferred=E{pref} " + " ".join(f"{k}={v}" for k, v in o.items() if k != "preferred_engine")
            try:
                res = c03.issue(final, root, fixed_rel, env, o)
            except Exception:
                continue  # which requests are refused is the subject of C03 / C20
            for n in lib_nodes(res):
                if n.engine is not env.sql or isinstance(n, Select):
                    continue
                # every SQL-engine node below the root is either wrapped by a Select or sits between a Select and
                # its skip target; the root itself must be a Select
                if n is res:
                    raise Violation("factory-result-not-select", f"{final[0]} with {label} on {fmt(base, leaves)} returned {type(res).__name__} {res}", symptom="opt")
            from lsst.daf.relation import Transfer

            for n in lib_nodes(res):
                # the SQL relation a transfer reads from was produced by the factories as well (possibly by backtracking)
                if isinstance(n, Transfer) and n.target.engine is env.sql:
                    t = n.target
                    if not isinstance(t, Select) or env.sql.conform(t) is not t:
                        raise Violation(
                            "factory-result-not-select",
                            f"{final[0]} with {label} on {fmt(base, leaves)}: the SQL relation below a transfer of the result is not conformed: {type(t).__name__} {str(t)[:300]}",
                            symptom="opt-upstream",
                        )
                    seen_sql += 1
            if res.engine is env.sql:
                seen_sql += 1
                if env.sql.conform(res) is not res:
                    raise Violation("conform-not-idempotent", f"conform(r) is not r for the relation returned by {final[0]} with {label} on {fmt(base, leaves)}: {res}")
            stats.c["markers_checked"] += check_tree_markers(res, f"{final[0]} with {label} on {fmt(base, leaves)}")
            if processed_budget and any(isinstance(n, Select) for n in lib_nodes(res)) and any(isinstance(n, Transfer) for n in lib_nodes(res)):
                # the tree Processor.process returns (transfers re-created with payloads, markers re-applied on top) is
                # what gets compiled: its SELECT markers must be coherent as well, and conforming it must be a no-op
                processed_budget -= 1
                from vf.core.env import DatabaseError
                from vf.core.proc import make_processor

                try:
                    done = make_processor(env).process(res)
                except DatabaseError:
                    done = None
                except Exception:
                    done = None  # faithfulness of process() is C07's subject
                if done is not None:
                    what = f"Processor.process of the result of {final[0]} with {label} on {fmt(base, leaves)}"
                    stats.c["processed_markers_checked"] += check_tree_markers(done, what)
                    if done.engine is env.sql and env.sql.conform(done) is not done:
                        raise Violation("conform-not-idempotent", f"conform(r) is not r for {what}: {str(done)[:300]}")
        stats.c["opt:results-in-sql"] += seen_sql
        if seen_sql:
            stats.mark_nontrivial(codec.digest(case), lambda: describe(case), cls=f"opt/{final[0]}")
    finally:
        env.close()


def describe(case):
    if case[0] == "opt":
        from vf.checks import c03

        d = c03.describe(case[1])
        d["kind"] = "multi-engine base + final operation, all option combinations"
        return d
    return describe_case(*case)


def exhaustive(tier, stats, shard, nshards, run):
    from vf.core.matrix import select_matrix

    for idx, (label, case) in enumerate(select_matrix(1, 0)):
        if idx % nshards != shard:
            continue
        try:
            run(case)
        except Violation as v:
            v.case = case
            raise
        stats.c["matrix_cases"] += 1


def attribute(case, v):
    return None
