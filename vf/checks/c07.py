"""C07 — the Processor evaluates multi-engine trees faithfully and only annotates payloads."""
from __future__ import annotations

from hypothesis import strategies as st

from vf.core import codec
from vf.core.base import Violation
from vf.core.env import DatabaseError, Env, take_rows
from vf.core.fp import fingerprint
from vf.core.gen import Cfg, st_program
from vf.core.proc import execute_processed, make_processor
from vf.core.prog import (
    BuildError,
    build_all,
    compare,
    describe_case,
    ev_multi,
    fmt,
    kinds,
    lib_nodes,
    n_ops,
    walk,
)
from vf.checks.c02 import is_order_loss
from vf.runner import exc_sig

ID = "C07"
LEVEL = "exploration"
TECHNIQUE = "property-based differential testing (Hypothesis): a real Processor (SQLite <-> iteration transfers, real materializations) vs an independent multi-engine evaluator; fingerprints of the input tree; hook-call log audit"
LEVEL_TEXT = (
    "Bounded exploration: generated trees spanning the SQL engine and two iteration engines (transfers in every "
    "direction, materializations incl. directly after a transfer, chains with doomed branches, identity leaves, <= 8 / 12 "
    "operations), processed 1-3 times by a real Processor.  The processed result executed in its final engine must "
    "equal direct evaluation; the input tree's fingerprint may change only by materialization payloads; every hook call "
    "is audited.  Histories: the program may be chained with a separately built copy of itself or with the same program "
    "over twin leaves (equal but distinct relation objects in one tree); after processing, selections / chains / joins "
    "are built on each cached materialization and the processed tree itself is refined (selection, calculation, each "
    "engine preferred in turn), processed and executed again.  Fault injection: in half of the cases a preliminary "
    "process() call is interrupted by an exception raised by the n-th hook call; it must propagate, leave the input tree "
    "unchanged (modulo complete materialization payloads, never a transfer payload), and the regular calls that follow "
    "must give the right rows with at most one completed hook call per materialization.  Third kind of engine: iteration-"
    "rooted trees are transferred to a GenericConcreteEngine subclass that has no payloads for trivial leaves and chained "
    "with its doomed leaf; process() must prune the chain to the processed transfer, whose payload holds the rows."
    "  Statically empty trees below a materialization in an engine without payloads for doomed relations must be processed without error."
    "  A processed tree rooted in a payload-carrying transfer is materialized and processed again: unless a hook call declared a payload suitable for caching, the new materialization must not simply adopt the transfer's payload."
)
LEVEL_NOTE = "trusts: harness Processor subclass (vf/core/proc.py) is truthful; ev_multi labels; SQLite; P1, P4, P8"
RULE = (
    "case = (multi-engine program, number of process() calls, combination mode).  Oracles: rows(execute(process(tree))) compare equal to "
    "ev_multi(program) (list / multiset / validity by label); fingerprint(tree) unchanged modulo Materialization payloads; "
    "no Transfer of the input tree gains a payload; result has the same columns and engine; each transfer/materialize "
    "hook call gets a source in which every Transfer carries a payload, with max_rows != 0 and not a join identity; at "
    "most one hook call per materialization name; trees built on cached materializations and refinements of the processed "
    "tree, processed and executed, compare equal to ev_multi of the extended program.  Non-trivial: >= 1 transfer with >= 1 operation on each side of it; "
    "distinct by case digest."
)
ASSUMPTIONS = ["P1, P4, P8", "joins only between relations of the SQL engine (iteration engine does not execute joins)"]


def cfg(tier):
    return Cfg(
        engines=(0, 1, 2),
        binary=("chain", "join"),
        markers=("mat", "xfer", "xfer", "xfer", "mark"),
        max_ops=8 if tier == "quick" else 12,
        p_binary=0.18,
        avoid=frozenset(["D9", "D10", "D11"]),
        p_cfun=12,
    )


def budget(tier):
    return 4000 if tier == "quick" else 40000


@st.composite
def st_mat_over_chain(draw, tier):
    """materialize(chain(doomed leaf, program)) [+ one operation]: the chain-pruning short-cut directly below a
    materialization, with the pruned operand on either side."""
    from vf.core.gen import st_unary_node
    from vf.core.prog import engine_of, schema

    universe, leaves, prog = draw(st_program(cfg(tier)))
    cols = schema(prog, leaves)
    eng = engine_of(prog, leaves)
    i = len(leaves)
    doomed = (f"L{i}", tuple(sorted(cols, key=lambda t: t.qualified_name)), (), eng, "doomed", (0, 0), "plain")
    leaves = tuple(leaves) + (doomed,)
    pair = (("leaf", i), prog) if draw(st.booleans()) else (prog, ("leaf", i))
    out = ("mat", ("chain",) + pair, "mchain")
    if draw(st.booleans()):
        node = draw(st_unary_node(out, cols, universe, ("sel", "slice", "proj", "dedup"), cfg(tier)))
        out = node or out
    return (universe, leaves, out)


@st.composite
def st_roundtrip_over_pruned_chain(draw, tier, cfg=None):
    """program -> transfer to another engine -> chain with a doomed leaf there -> transfer back (+ one operation)."""
    from vf.core.gen import st_unary_node
    from vf.core.prog import engine_of, schema

    cfg = cfg or globals()["cfg"]
    universe, leaves, prog = draw(st_program(cfg(tier)))
    cols = schema(prog, leaves)
    a = engine_of(prog, leaves)
    b = draw(st.sampled_from([e for e in (0, 1, 2) if e != a]))
    i = len(leaves)
    doomed = (f"L{i}", tuple(sorted(cols, key=lambda t: t.qualified_name)), (), b, "doomed", (0, 0), "plain")
    leaves = tuple(leaves) + (doomed,)
    moved = ("xfer", prog, b)
    pair = (("leaf", i), moved) if draw(st.booleans()) else (moved, ("leaf", i))
    out = ("xfer", ("chain",) + pair, a)
    if draw(st.booleans()):
        out = draw(st_unary_node(out, cols, universe, ("sel", "slice", "proj", "dedup", "calc"), cfg(tier))) or out
    return (universe, leaves, out)


@st.composite
def st_join_with_transferred_identity(draw, tier):
    """A predicate join in the SQL engine one of whose operands is a join identity that lives in an iteration engine and
    is transferred in: the join stays in the tree (its predicate filters), the identity side is statically trivial."""
    from vf.core.expr import st_pred
    from vf.core.prog import engine_of, schema

    universe, leaves, prog = draw(st_program(cfg(tier)))
    if engine_of(prog, leaves) != 0:
        prog = ("xfer", prog, 0)
    cols = schema(prog, leaves)
    i = len(leaves)
    ident = (f"L{i}", (), ((),), draw(st.sampled_from([1, 2])), "identity", (1, 1), "plain")
    leaves = tuple(leaves) + (ident,)
    other = ("xfer", ("leaf", i), 0)
    pred = draw(st_pred(cols, 1, literals=False)) if cols else None
    out = ("join", prog, other, pred) if draw(st.booleans()) else ("join", other, prog, pred)
    if draw(st.integers(0, 2)) == 0:
        out = ("mat", out, "mjoin")
    if draw(st.booleans()):
        out = ("xfer", out, draw(st.sampled_from([1, 2])))
    return (universe, leaves, out)


def strategy(tier):
    return st.tuples(
        st.one_of(
            st_program(cfg(tier)),
            st_program(cfg(tier)),
            st_program(cfg(tier)),
            st_program(cfg(tier)),
            st_mat_over_chain(tier),
            st_roundtrip_over_pruned_chain(tier),
            st_join_with_transferred_identity(tier),
        ),
        st.integers(1, 3),
        # 0: the program alone; 1: chained with a second, separately built copy of itself (equal but distinct relation
        # objects); 2: chained with the same program over twin leaves (same names / engines / columns, other rows)
        st.sampled_from([0, 0, 0, 1, 2]),
        # fault injection: 0 = none; n >= 1: before the regular calls, process() is called once with a Processor whose
        # hook call number n-1 raises - the exception must propagate, the input tree must stay as it was (modulo complete
        # materialization payloads), and the regular calls afterwards must still give the right rows
        st.sampled_from([0, 0, 0, 1, 2, 3]),
    )


def shift_leaves(prog, k, memo=None):
    """The same program over leaf indices shifted by k (sharing preserved)."""
    from vf.core.prog import children

    memo = {} if memo is None else memo
    if id(prog) in memo:
        return memo[id(prog)]
    if prog[0] == "leaf":
        out = ("leaf", prog[1] + k) + tuple(prog[2:])
    else:
        kids = children(prog)
        new = tuple(shift_leaves(c, k, memo) for c in kids)
        out = (prog[0],) + new + tuple(prog[1 + len(kids) :])
    memo[id(prog)] = out
    return out


def refine_processed(prog, leaves, universe, result, env, proc, stats, ctx):
    """Histories: an operation applied to an already processed tree (whose transfers carry payloads), asking for it to be
    inserted in each engine in turn; the refined tree is processed and executed like any other multi-engine tree."""
    from lsst.daf.relation import ColumnError, EngineError

    from vf.core.expr import lib_e, lib_p
    from vf.core.prog import schema
    from vf.core.tags import sorted_tags

    cols = sorted_tags(schema(prog, leaves))
    if not cols:
        return
    base_rows = ev_multi(prog, leaves).rows
    vals = sorted({r[cols[0]] for r in base_rows})
    pivot = vals[len(vals) // 2] if vals else 0
    pred = ("ge", ("ref", cols[0]), ("lit", pivot))
    fresh = [t for t in universe if t not in cols]
    requests = [("sel", ("sel", prog, pred), lambda r, **o: r.with_rows_satisfying(lib_p(pred), **o))]
    if fresh:
        expr = ("ref", cols[0])
        requests.append(("calc", ("calc", prog, fresh[0], expr), lambda r, **o: r.with_calculated_column(fresh[0], lib_e(expr), **o)))
    # the processed tree materialized and processed again: a payload that process() attached to a transfer is only known
    # to be suitable for caching if the transfer hook was told so (materialize_as); for a new materialization on top of
    # it some hook call must have declared its payload cache-suitable - the materialize hook, or a transfer hook called
    # with this name - unless the relation is statically trivial
    from lsst.daf.relation import Materialization, Transfer

    if isinstance(result, Transfer) and result.payload is not None and result.max_rows != 0 and not result.is_join_identity:
        was_cache_suitable = any(h == "transfer" and n is not None and r is result.target for h, r, d, n in proc.log)
        name = f"again_{len(proc.log)}"
        try:
            again = proc.process(result.materialized(name=name))
            got = execute_processed(env, again)
            got2 = execute_processed(env, again)
        except Exception as e:
            if not isinstance(e, DatabaseError):
                raise Violation("refined-tree-not-executable", f"materialized() of the processed tree, process() + execute raised {type(e).__name__}: {str(e)[:300]}; processed {str(result)[:300]}; {ctx}", sig=exc_sig(e))
        else:
            declared = any(n == name and i in proc.completed for i, (h, r, d, n) in enumerate(proc.log))
            if not declared and not was_cache_suitable and any(isinstance(n, Materialization) and n.name == name for n in lib_nodes(again)):
                raise Violation(
                    "materialization-adopted-uncached-payload",
                    f"materialized(name={name!r}) of a processed tree whose root transfer carries a payload no hook declared suitable for caching: process() made no materialize / materializing-transfer hook call for it; processed {str(result)[:300]}; {ctx}",
                )
            truth = ev_multi(prog, leaves)
            for k, rows in enumerate((got, got2)):
                bad = compare(truth, rows)
                if bad:
                    raise Violation("refined-rows-differ", f"materialized() of the processed tree, evaluation #{k}: {bad}; processed {str(result)[:300]}; {ctx}")
            stats.c["refine:materialize-processed"] += 1
    # the processed tree chained with itself, evaluated twice (whatever evaluating the chain does with the payloads that
    # process() attached - possibly lazy iterables - must not show in the second evaluation)
    if not is_order_loss_root(result):
        node2 = ("chain", prog, prog)
        try:
            doubled = result.chain(result)
        except Exception as e:
            if not (isinstance(e, (ColumnError, EngineError)) or is_order_loss(e)):
                raise Violation("refine-raised", f"chain of the processed tree with itself raised {type(e).__name__}: {str(e)[:200]}; {ctx}", sig=exc_sig(e))
            doubled = None
        if doubled is not None:
            want = ev_multi(node2, leaves)
            for attempt in (1, 2):
                try:
                    got = execute_processed(env, proc.process(doubled))
                except DatabaseError:
                    break
                except Exception as e:
                    raise Violation("refined-tree-not-executable", f"chain of the processed tree with itself, evaluation #{attempt}: {type(e).__name__}: {str(e)[:300]}; processed {str(result)[:300]}; {ctx}", sig=exc_sig(e))
                bad = compare(want, got)
                if bad:
                    raise Violation("refined-rows-differ", f"chain of the processed tree with itself, evaluation #{attempt}: {bad}; processed {str(result)[:300]}; {ctx}")
            stats.c["refine:self-chain"] += 1
    for name, node, call in requests:
        expected = None
        for ei, pe in enumerate(env.engines):
            try:
                refined = call(result, preferred_engine=pe)
            except Exception as e:
                if isinstance(e, (ColumnError, EngineError)) or is_order_loss(e):
                    stats.c["refine:refused"] += 1
                    continue
                raise Violation("refine-raised", f"{name} on the processed tree with preferred_engine=E{ei} raised {type(e).__name__}: {str(e)[:200]}; {ctx}", sig=exc_sig(e))
            try:
                got = execute_processed(env, proc.process(refined))
            except DatabaseError:
                continue
            except Exception as e:
                raise Violation(
                    "refined-tree-not-executable",
                    f"{name} with preferred_engine=E{ei} applied to the processed tree, then process() + execute raised {type(e).__name__}: {str(e)[:300]}; processed {str(result)[:300]}; refined {str(refined)[:300]}; {ctx}",
                    sig=exc_sig(e),
                )
            if expected is None:
                expected = ev_multi(node, leaves)
            bad = compare(expected, got)
            if bad:
                raise Violation(
                    "refined-rows-differ",
                    f"{name} with preferred_engine=E{ei} applied to the processed tree: {bad}; processed {str(result)[:300]}; refined {str(refined)[:300]}; {ctx}",
                )
            stats.c["refine:compared"] += 1


def is_order_loss_root(rel):
    """A SQL relation ending in an un-sliced sort cannot be a chain operand (documented refusal)."""
    return False


def has_iter_join(prog, leaves):
    from vf.core.prog import engine_of

    return any(n[0] == "join" and engine_of(n, leaves) != 0 for n in walk(prog))


def visited_materializations(tree, had_payload):
    """Materializations of the input tree that process() must have reached: the walk stops below nodes that already
    had a payload and below transfers that are statically trivial (their upstream is documented not to be processed)."""
    from lsst.daf.relation import BinaryOperationRelation, MarkerRelation, Materialization, Transfer, UnaryOperationRelation

    stack = [tree]
    seen = set()
    while stack:
        r = stack.pop()
        if id(r) in seen or id(r) in had_payload:
            continue
        seen.add(id(r))
        if isinstance(r, Materialization):
            yield r
        if isinstance(r, Transfer) and (r.max_rows == 0 or r.is_join_identity):
            continue
        if isinstance(r, (UnaryOperationRelation, MarkerRelation)):
            stack.append(r.target)
        elif isinstance(r, BinaryOperationRelation):
            stack.extend([r.rhs, r.lhs])


def reuse_cached_materializations(prog, rels, leaves, env, proc, stats, ctx):
    """After processing, build a selection on top of each materialization of the input tree that now carries a payload,
    evaluate it, then evaluate the materialization itself again: both must still agree with direct evaluation (the
    cached payload must not have been altered by compiling / executing something built on it)."""
    from lsst.daf.relation import Materialization

    from vf.core.expr import lib_p
    from vf.core.prog import schema
    from vf.core.tags import sorted_tags

    done = 0
    for node in walk(prog):
        if node[0] != "mat" or id(node) not in rels or done >= 2:
            continue
        rel = rels[id(node)]
        cached = [n for n in lib_nodes(rel) if isinstance(n, Materialization) and n.name == node[2]]
        if not cached or cached[0].payload is None:
            continue
        cols = sorted_tags(schema(node, leaves))
        if not cols:
            continue
        done += 1
        pred = ("ge", ("ref", cols[0]), ("lit", 0))
        sel_node = ("sel", node, pred)
        from vf.core.prog import engine_of

        here = engine_of(node, leaves)
        other = (here + 1) % 3
        trip_node = ("chain", node, ("xfer", ("mat", ("xfer", node, other), f"{node[2]}_trip"), here))
        keys = tuple(c for c in cols if c.is_key)
        join_node = ("join", node, ("xfer", ("mat", ("xfer", ("proj", node, keys), other), f"{node[2]}_keys"), here), None)
        steps = [
            ("selection on cached materialization", sel_node, None),
            ("cached materialization again", node, rel),
            ("chain of the cached materialization with a round-tripped copy of it", trip_node, "trip"),
            ("cached materialization once more", node, rel),
        ]
        if here == 0 and keys:
            steps += [
                ("join of the cached materialization with a round-tripped projection of it", join_node, "join"),
                ("cached materialization after the join", node, rel),
            ]
        for what, n, r in steps:
            try:
                if r is None:
                    r = rel.with_rows_satisfying(lib_p(pred))
                elif r == "trip":
                    r = rel.chain(rel.transferred_to(env.engines[other]).materialized(f"{node[2]}_trip").transferred_to(env.engines[here]))
                elif r == "join":
                    r = rel.join(
                        rel.with_only_columns(set(keys)).transferred_to(env.engines[other]).materialized(f"{node[2]}_keys").transferred_to(env.engines[here])
                    )
                got = execute_processed(env, proc.process(r))
            except DatabaseError:
                return
            except Exception as e:
                raise Violation("reuse-raised", f"{what}: {type(e).__name__}: {str(e)[:200]}; materialization {node[2]!r}; {ctx}", sig=exc_sig(e))
            bad = compare(ev_multi(n, leaves), got)
            if bad:
                raise Violation("cached-rows-changed", f"{what} ({node[2]!r}): {bad}; {ctx}", what=what.split(" ")[0])
        stats.c["reuse:cached-materialization"] += 1


def bare_engine_probe(tree, truth, env, proc, stats, ctx):
    """A third kind of engine: a GenericConcreteEngine subclass that keeps the base-class payloads (None) for doomed and
    join-identity leaves.  The tree is transferred there and chained with that engine's doomed leaf (either side); the
    Processor must evaluate the transfer (the chain is pruned to it) and must cope with the payload-less leaf."""
    from lsst.daf.relation import ColumnError, EngineError, GenericConcreteEngine, MarkerRelation

    class Bare(GenericConcreteEngine):
        pass

    bare = Bare(name="bare")
    try:
        moved = tree.transferred_to(bare)
        doomed = bare.make_doomed_relation(set(tree.columns), ["nothing here"], name="bare_doomed")
        probes = [("chain(tree -> bare engine, doomed leaf of the bare engine)", moved.chain(doomed)), ("chain(doomed leaf of the bare engine, tree -> bare engine)", doomed.chain(moved)), ("the bare engine's doomed leaf alone", doomed)]
        # statically empty trees below a materialization: no hook is needed, nothing can be cached in an engine without
        # payloads for doomed relations, and process() still has to return an (empty) relation of that engine
        doomed2 = bare.make_doomed_relation(set(tree.columns), ["nothing here either"], name="bare_doomed2")
        empties = [
            ("materialize(chain of two doomed leaves of the bare engine)", doomed.chain(doomed2).materialized("bare_m0")),
            ("materialize(chain(empty window of tree -> bare engine, doomed leaf))", moved[0:0].chain(doomed).materialized("bare_m1")),
            ("materialize(doomed leaf chained with itself), then an empty window", doomed.chain(doomed).materialized("bare_m2")[0:0]),
        ]
        probes += empties
    except Exception as e:
        if isinstance(e, (ColumnError, EngineError)) or is_order_loss(e):
            stats.c["bare:refused"] += 1
            return
        raise Violation("bare-build-raised", f"{type(e).__name__}: {str(e)[:200]}; {ctx}", sig=exc_sig(e))
    for what, rel in probes:
        try:
            out = proc.process(rel)
        except DatabaseError:
            return
        except Exception as e:
            raise Violation("process-raised", f"process() of {what} raised {type(e).__name__}: {str(e)[:300]}; {ctx}", sig=exc_sig(e), call="bare")
        if set(out.columns) != set(rel.columns) or out.engine is not bare:
            raise Violation("result-columns", f"process() of {what}: columns {set(out.columns)} / engine {out.engine}; {ctx}")
        if rel is doomed:
            continue
        if any(rel is e[1] for e in empties):
            if out.max_rows != 0:
                raise Violation("rows-differ", f"process() of {what} returned {str(out)[:200]} with max_rows={out.max_rows}; the tree is statically empty; {ctx}", call="bare")
            stats.c["bare:empty-materializations"] += 1
            continue
        if out.max_rows == 0 or out.is_join_identity:
            # statically trivial: an engine without payloads for doomed / join-identity relations has nothing to attach
            bad = compare(truth, [] if out.max_rows == 0 else [{}])
            if bad:
                raise Violation("rows-differ", f"process() of {what} returned a statically trivial relation {str(out)[:200]}: {bad}; {ctx}", call="bare")
            continue
        node = out
        while node.payload is None and isinstance(node, MarkerRelation):
            node = node.target
        if node.payload is None:
            # the chain with a statically empty operand is documented to be pruned down to the processed transfer
            raise Violation("bare-no-payload", f"process() of {what} returned {str(out)[:200]}, which is not statically trivial and carries no payload; {ctx}")
        got = take_rows(node.payload)
        bad = compare(truth, got)
        if bad:
            raise Violation("rows-differ", f"process() of {what}: payload of the processed transfer: {bad}; {ctx}", call="bare")
        stats.c["bare:compared"] += 1


def evaluable_nodes(rel):
    """Nodes an engine has to look at to evaluate `rel`: the walk stops below any node that carries a payload."""
    from lsst.daf.relation import BinaryOperationRelation, MarkerRelation, UnaryOperationRelation

    stack = [rel]
    while stack:
        r = stack.pop()
        yield r
        if getattr(r, "payload", None) is not None:
            continue
        if isinstance(r, (UnaryOperationRelation, MarkerRelation)):
            stack.append(r.target)
        elif isinstance(r, BinaryOperationRelation):
            stack.extend([r.rhs, r.lhs])


def run_case(case, stats):
    from lsst.daf.relation import ColumnError, EngineError, Materialization, Transfer

    (universe, leaves, prog), ncalls, *more = case
    mode = more[0] if more else 0
    fault = more[1] if len(more) > 1 else 0
    if has_iter_join(prog, leaves):
        stats.c["skipped:iteration-join"] += 1
        return
    env = Env(leaves)
    tw = None
    try:
        rels = {}
        try:
            build_all(prog, env, rels)
            if mode:
                from vf.core.prog import twin_leaves

                rels2 = {}
                if mode == 2:
                    leaves2 = twin_leaves(leaves)
                    tw = env.twin(leaves2)
                    build_all(prog, tw, rels2)
                    prog = ("chain", prog, shift_leaves(prog, len(leaves)))
                    leaves = tuple(leaves) + tuple(leaves2)
                    env.leafrels = list(env.leafrels) + list(tw.leafrels)
                    env.payloads = list(env.payloads) + list(tw.payloads)
                    env.leaves = leaves
                else:
                    build_all(prog, env, rels2)
                    prog = ("chain", prog, shift_leaves(prog, 0))
                lhs, rhs = rels[id(case[0][2])], rels2[id(case[0][2])]
                rels = {id(prog): lhs.chain(rhs)}
                stats.c[f"mode:{'separately-built-copy' if mode == 1 else 'twin-leaves'}"] += 1
        except BuildError as b:
            if not (is_order_loss(b.exc) or isinstance(b.exc, (ColumnError, EngineError))):
                raise Violation("build-raised", f"{fmt(b.node, leaves)}: {type(b.exc).__name__}: {b.exc}", exc=b.exc)
            stats.c["build:refused"] += 1
            return
        except Exception as e:
            if mode and (is_order_loss(e) or isinstance(e, (ColumnError, EngineError))):
                stats.c["build:refused"] += 1
                return
            raise
        truth = ev_multi(prog, leaves)
        tree = rels[id(prog)]
        had_payload = {id(n) for n in lib_nodes(tree) if getattr(n, "payload", None) is not None}
        before = fingerprint(tree, marker_payloads=False)
        # in half of the cases transfers between iteration engines that are not materialized hand over lazy rows
        proc = make_processor(env, lazy_transfers=int(codec.digest(case)[:2], 16) % 2 == 1)
        ctx = f"program {fmt(prog, leaves)}; tree {tree}"
        if fault:
            from vf.core.env import InjectedFault

            proc.fail_at = fault - 1
            try:
                proc.process(tree)
            except InjectedFault:
                stats.c["fault:interrupted"] += 1
            except DatabaseError:
                stats.c["db-error-in-hook"] += 1
                return
            except Exception as e:
                if proc.fault_fired and any(isinstance(x, InjectedFault) for x in (e.__cause__, e.__context__)):
                    stats.c["fault:interrupted"] += 1
                elif isinstance(e, (NotImplementedError, KeyError)) and "convert_column_expression" in exc_sig(e) + "":
                    stats.c["compile-error-in-hook"] += 1
                    return
                else:
                    raise Violation("process-raised", f"process() call #0 (with an injected hook fault) raised {type(e).__name__}: {str(e)[:300]}; {ctx}", sig=exc_sig(e), call=0)
            else:
                if proc.fault_fired:
                    raise Violation("fault-swallowed", f"the exception raised by Processor hook call #{fault - 1} did not propagate out of process(); {ctx}")
                stats.c["fault:not-reached"] += 1
            finally:
                proc.fail_at = None
            ctx += f"; after a process() call interrupted at hook call #{fault - 1}" if proc.fault_fired else ""
            if fingerprint(tree, marker_payloads=False) != before:
                raise Violation("input-tree-changed", f"fingerprint of the tree passed to process() changed by an interrupted process() call; {ctx}")
            for n in lib_nodes(tree):
                if isinstance(n, Transfer) and n.payload is not None:
                    raise Violation("input-transfer-gained-payload", f"transfer {str(n)[:200]} of the input tree has a payload after an interrupted process(); {ctx}")
        for call in range(1, ncalls + 1):
            try:
                result = proc.process(tree)
            except DatabaseError as e:
                stats.c["db-error-in-hook"] += 1
                return
            except Exception as e:
                if isinstance(e, (NotImplementedError, KeyError)) and "convert_column_expression" in exc_sig(e) + "":
                    stats.c["compile-error-in-hook"] += 1
                    return
                raise Violation("process-raised", f"process() call #{call} raised {type(e).__name__}: {str(e)[:300]}; {ctx}", sig=exc_sig(e), call=call)
            if set(result.columns) != set(tree.columns):
                raise Violation("result-columns", f"{set(result.columns)} != {set(tree.columns)}; {ctx}")
            if result.engine is not tree.engine:
                raise Violation("result-engine", f"{result.engine} != {tree.engine}; {ctx}")
            after = fingerprint(tree, marker_payloads=False)
            if after != before:
                raise Violation("input-tree-changed", f"fingerprint of the tree passed to process() changed (call #{call}); {ctx}")
            for n in visited_materializations(tree, had_payload):
                if n.payload is None:
                    raise Violation(
                        "materialization-without-payload",
                        f"materialization {n.name!r} of the input tree was processed but has no payload after process() call #{call}; {ctx}",
                        call=call,
                    )
            for n in evaluable_nodes(result):
                if isinstance(n, Materialization) and n.payload is None:
                    raise Violation(
                        "materialization-without-payload",
                        f"materialization {n.name!r} of the returned tree has no payload after process() call #{call}; returned {str(result)[:300]}; {ctx}",
                        call=call,
                    )
            for n in lib_nodes(tree):
                if isinstance(n, Transfer) and n.payload is not None:
                    raise Violation("input-transfer-gained-payload", f"transfer {str(n)[:200]} of the input tree has a payload after process(); {ctx}")
            try:
                got = execute_processed(env, result)
            except DatabaseError as e:
                stats.c["db-error-at-execute"] += 1
                return
            except Exception as e:
                raise Violation(
                    "processed-tree-not-executable",
                    f"executing the processed tree raised {type(e).__name__}: {str(e)[:300]}; processed {str(result)[:400]}; {ctx}",
                    sig=exc_sig(e),
                    call=call,
                )
            bad = compare(truth, got)
            if bad:
                raise Violation("rows-differ", f"call #{call}: {bad}; processed {str(result)[:300]}; {ctx}", call=call)
            stats.c["label:" + ("ordered" if truth.ordered else "det" if truth.det else "ambiguous")] += 1
        # later evaluations built on the (now cached) materializations of the input tree return the cached rows
        if not mode:
            reuse_cached_materializations(prog, rels, leaves, env, proc, stats, ctx)
        refine_processed(prog, leaves, universe, result, env, proc, stats, ctx)
        if not mode and tree.engine is not env.sql and ncalls == 1:
            bare_engine_probe(tree, truth, env, proc, stats, ctx)
        # hook audit
        per_name = {}
        for idx, (hook, rel, dest, name) in enumerate(proc.log):
            stats.c[f"hook:{hook}"] += 1
            for n in evaluable_nodes(rel):
                if isinstance(n, Transfer) and n.payload is None:
                    raise Violation("hook-source-not-evaluable", f"{hook} hook got a source containing an unprocessed transfer: {str(rel)[:300]}; {ctx}")
            if rel.max_rows == 0 or rel.is_join_identity:
                raise Violation("hook-on-trivial", f"{hook} hook called for a relation statically known to be {'empty' if rel.max_rows == 0 else 'a join identity'}: {str(rel)[:300]}; {ctx}")
            if name is not None and idx in proc.completed:
                per_name[name] = per_name.get(name, 0) + 1
        for name, cnt in per_name.items():
            if cnt > (2 if mode else 1):
                raise Violation("materialization-recomputed", f"{cnt} hook calls for materialization {name!r} over {ncalls} process() call(s); {ctx}")
        ks = kinds(prog)
        if "xfer" in ks:
            above = any(n[0] not in ("leaf", "xfer") and any(m[0] == "xfer" for m in walk(n) if m is not n) for n in walk(prog))
            below = any(n[0] == "xfer" and n[1][0] != "leaf" for n in walk(prog))
            if above and below:
                cls = "+".join(sorted(set(ks) & {"mat", "chain", "join"})) or "unary"
                stats.mark_nontrivial(codec.digest(case), lambda: describe(case), cls=cls + f"/calls={ncalls}")
    finally:
        if tw is not None:
            tw.close_tables()
        env.close()


def describe(case):
    mode = case[2] if len(case) > 2 else 0
    fault = case[3] if len(case) > 3 else 0
    return describe_case(
        *case[0],
        process_calls=case[1],
        combined=("alone", "chained with a separately built copy", "chained with the same program over twin leaves")[mode],
        injected_fault=f"hook call #{fault - 1} of a preliminary process() raises" if fault else "none",
    )


def attribute(case, v):
    """D10 (see C08): the SQL engine accepted a projection dropping a column that a sort still needs; re-applying the
    operations in Processor.process then fails on the ill-formed tree."""
    from vf.core.known import TRIGGERS

    prog = case[0][2]
    if len(case) > 2 and case[2]:
        # the tree that was processed is the program chained with a (separately built / twin-leaf) copy of itself
        prog = ("chain", prog, prog)
    sig = str(v.extra.get("sig", ""))
    if v.kind == "process-raised" and sig.startswith(("RelationalAlgebraError@_engine.py:_append_binary_to_select", "RelationalAlgebraError@_engine.py:materialize")):
        from vf.core.known import trig_sorted_chain_with_empty_operand

        leaf_sets = [case[0][1]]
        if len(case) > 2 and case[2] == 2:
            from vf.core.prog import twin_leaves

            leaf_sets.append(twin_leaves(case[0][1]))  # the second operand is built over the twin leaves (other bounds)
        if any(trig_sorted_chain_with_empty_operand(prog, ls) for ls in leaf_sets):
            return "D25"
    if v.kind in ("process-raised", "processed-tree-not-executable") and TRIGGERS["D10"](prog):
        if sig.startswith("ColumnError@_sort.py") or sig.startswith("KeyError@_engine.py:convert_column_expression"):
            return "D10"
    return None
