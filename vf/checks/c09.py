"""C09 — relations are persistent, hashable values; evaluation is side-effect free."""
from __future__ import annotations

from hypothesis import strategies as st

from vf.core import codec
from vf.core.base import Violation
from vf.core.env import DatabaseError, Env
from vf.core.expr import lib_e, lib_p
from vf.core.fp import snapshot
from vf.core.gen import Cfg, st_program
from vf.core.proc import make_processor
from vf.core.prog import BuildError, apply_node, build_all, children, describe_case, engine_of, fmt, kinds, walk
from vf.core.sqlh import sql_text
from vf.checks.c02 import is_order_loss
from vf.runner import exc_sig

ID = "C09"
LEVEL = "exploration"
TECHNIQUE = "model-based stateful testing (Hypothesis-generated histories): a pool of relations is grown by factory calls interleaved with compile / execute / process / diagnostics / hash / rebuild steps; snapshots of every older relation are compared after every step"
LEVEL_TEXT = (
    "Bounded exploration of call histories: a multi-engine program is built node by node (each factory result joins a "
    "pool); between builds, drawn steps compile, execute (twice), process, diagnose, hash or rebuild pool members.  After "
    "every step the snapshot (structural fingerprint incl. leaf payload content, str, repr, hash) of every pool member "
    "must be unchanged (materialization payloads excepted).  Caller-owned mutable arguments (sort-term lists, column "
    "sets, sequence item lists) are mutated after each call.  The SQL of a relation must equal the SQL of its first "
    "compilation in the history; once per fresh worker process a fixed set of relations is compiled twice in the same order."
    "  A quarter of the histories use two iteration engines only (every relation directly executable); step kind "
    "'aliens' constructs unrelated literal objects that compare equal to used ones (1 == 1.0 == True)."
    "  Leaves of iteration-engine histories may hold a lazy stored payload (ChainRowIterable) whose operand list is part of the snapshot."
)
LEVEL_NOTE = "trusts: snapshot()/fingerprint() see everything the statement lists; histories <= 8 / 12 builds + <= 12 / 20 other steps"
RULE = (
    "case = (program, interleaved step list).  Invariant after every step: snapshot of every pool member unchanged and "
    "hash() never raises; compiling twice gives identical SQL text; executing twice gives identical rows (lists in "
    "iteration engines, multisets in SQL); a rebuilt program == the original with equal hash.  Non-trivial: >= 3 steps "
    "including a compile / execute / process step after which an older member is re-inspected; distinct by case digest."
)
ASSUMPTIONS = ["explicit names for leaves and materializations (generated names are intentionally unique)"]

KINDS = ("build", "build", "build", "compile", "compile", "execute", "process", "diag", "hash", "rebuild", "optcall", "optcall", "aliens")


def cfg(tier):
    return Cfg(
        engines=(0, 1, 2),
        binary=("chain", "join"),
        markers=("mat", "xfer", "xfer"),
        max_ops=8 if tier == "quick" else 12,
        p_binary=0.15,
        avoid=frozenset(["D9", "D10", "D11"]),
    )


def budget(tier):
    return 2500 if tier == "quick" else 40000


def cfg_sql(tier):
    return Cfg(engines=(0,), max_ops=8 if tier == "quick" else 12, p_binary=0.3, avoid=frozenset(["D9", "D10", "D11"]), prelude=0.2)


def cfg_iter(tier):
    """Two iteration engines only: every relation of the history can be executed directly (transfers between iteration
    engines are passed through by execute())."""
    return Cfg(engines=(1, 2), binary=("chain",), markers=("mat", "xfer", "xfer", "mark"), max_ops=8 if tier == "quick" else 12, p_binary=0.15, iter_variants=("plain", "plain", "custom", "mapping", "lazy"))


@st.composite
def st_case(draw, tier):
    which = draw(st.integers(0, 3))
    universe, leaves, prog = draw(st_program(cfg_sql(tier) if which == 0 else cfg_iter(tier) if which == 1 else cfg(tier)))
    n = len(list(walk(prog)))
    actions = [k for k in KINDS if k != "build"]
    steps = []
    for _ in range(n):
        steps.append(("build", 0))
        for _ in range(draw(st.sampled_from([0, 0, 1, 1, 2]))):
            steps.append((draw(st.sampled_from(actions)), draw(st.integers(0, 9999))))
    for _ in range(draw(st.integers(0, 3))):
        steps.append((draw(st.sampled_from(actions)), draw(st.integers(0, 9999))))
    return (universe, leaves, prog, tuple(steps))


def strategy(tier):
    from vf.checks import c03

    return st.one_of(st_case(tier), st_case(tier), st.tuples(st.just("opt"), c03.st_case(tier, p_mat=2)))


def apply_with_mutable_args(node, operands, env):
    """Issue the factory call with caller-owned mutable containers, then mutate those containers."""
    from lsst.daf.relation import ColumnContainer, SortTerm

    k = node[0]
    rel = operands[0]
    if k == "proj":
        cols = set(node[2])
        out = rel.with_only_columns(cols)
        cols.clear()
        return out
    if k == "sort":
        terms = [SortTerm(lib_e(e), asc) for e, asc in node[2]]
        out = rel.sorted(terms)
        terms.clear()
        return out
    if k == "sel" and node[2][0] == "inseq":
        items = [lib_e(x) for x in node[2][2]]
        pred = ColumnContainer.sequence(items).contains(lib_e(node[2][1]))
        out = rel.with_rows_satisfying(pred)
        items.clear()
        return out
    return apply_node(node, operands, env)


def run_opt_case(body, stats, case):
    """A base tree plus one final operation issued with every preferred-engine option combination (the generator of
    C03): every returned relation must be hashable, and no call may change a relation obtained earlier."""
    import itertools

    from lsst.daf.relation import ColumnError, EngineError

    from vf.checks import c03

    universe, leaves, S, base, final, *rest = body
    from vf.core.prog import engine_of as _engine_of

    T = _engine_of(base, leaves)
    third = ({0, 1, 2} - {S, T}).pop()
    env = Env(leaves)
    try:
        rels = {}
        try:
            build_all(base, env, rels)
        except BuildError as b:
            if not (is_order_loss(b.exc) or isinstance(b.exc, (ColumnError, EngineError))):
                raise Violation("build-raised", f"{fmt(b.node, leaves)}: {type(b.exc).__name__}: {b.exc}", sig=exc_sig(b.exc))
            return
        pool = [(fmt(n, leaves), rels[id(n)]) for n in walk(base) if id(n) in rels]
        snaps = {id(r): snapshot(r) for _, r in pool}
        root = rels[id(base)]
        fixed_rel = env.leafrels[final[2][1]] if final[0] == "join" else None
        if final[0] == "join":
            combos = [dict(backtrack=b, transfer=t) for b in (False, True) for t in (False, True)]
            prefs = [S]
        else:
            combos = [dict(backtrack=b, transfer=t, require_preferred_engine=r) for b in (False, True) for t in (False, True) for r in (False, True)]
            prefs = [S, T, third]
        for pref, opts in itertools.product(prefs, combos):
            o = dict(opts)
            if final[0] != "join":
                o["preferred_engine"] = env.engines[pref]
            label = f"{final[0]} preferred=E{pref} " + " ".join(f"{k}={v}" for k, v in opts.items()) + f" on {fmt(base, leaves)}"
            try:
                res = c03.issue(final, root, fixed_rel, env, o)
            except Exception as e:
                if is_order_loss(e) or isinstance(e, (ColumnError, EngineError)):
                    res = None
                else:
                    raise Violation("optioned-call-raised", f"{label}: {type(e).__name__}: {str(e)[:200]}", sig=exc_sig(e))
            if res is not None:
                try:
                    hash(res)
                except TypeError as e:
                    raise Violation("unhashable", f"hash() of {str(res)[:200]} raised {e}; built by {label}", sig=exc_sig(e))
                if id(res) not in snaps:
                    pool.append((label, res))
                    snaps[id(res)] = snapshot(res)
            for what, r in pool:
                if snapshot(r) != snaps[id(r)]:
                    raise Violation("relation-changed", f"an existing relation ({what}) changed after {label}: {str(r)[:200]}", after="optcall")
            stats.c["step:optioned-call"] += 1
        stats.mark_nontrivial(codec.digest(case), lambda: describe(case), cls=f"opt/S=E{S}/{final[0]}")
    finally:
        env.close()


_PROBED = False


def fresh_process_probe(stats):
    """Run once per worker process, before anything else was compiled there: a fixed set of SQL relations (subqueries,
    joins, zero-column subqueries, doomed and identity operands, unions) is compiled, then compiled again in the same
    order; compiling one relation must not change the SQL of another (state kept between compilations)."""
    from vf.core.matrix import A, B, C, D, UNIVERSE
    from vf.core.prog import build_all as _build

    rows0 = ((2, 1, 0), (0, 2, 1), (1, 0, 2), (2, 0, 1), (0, 1, 2))
    leaves = (
        ("L0", (A, B, C), rows0, 0, "data", (0, None), "plain"),
        ("L2", (A, D), ((0, 7), (1, 8), (2, 9), (2, 6)), 0, "data", (0, None), "plain"),
    )
    R = lambda t: ("ref", t)  # noqa: E731
    l0, l2 = ("leaf", 0), ("leaf", 1)
    sub = ("sel", ("dedup", ("sel", l0, ("ge", R(A), ("lit", 1)))), ("ge", R(B), ("lit", 0)))
    progs = [
        sub,
        ("join", l0, l2, None),
        ("sel", ("slice", ("sort", l0, ((R(A), True), (R(B), True), (R(C), True))), 0, 3), ("ge", R(A), ("lit", 0))),
        ("chain", sub, ("sel", l0, ("lt", R(A), ("lit", 1)))),
        ("join", l0, ("dedup", ("proj", l2, ())), None),
        ("dedup", ("proj", l0, ())),
        ("dedup", ("chain", ("proj", l0, ()), ("proj", l0, ()))),
        ("join", sub, ("slice", l2, 0, 0), None),
    ]
    env = Env(leaves)
    try:
        rels = []
        for p in progs:
            try:
                rels.append((p, _build(p, env)[id(p)]))
            except Exception:
                continue
        first = {}
        for rnd in range(2):
            for p, rel in rels:
                try:
                    text = sql_text(env.sql.to_executable(rel))
                except Exception:
                    continue
                if rnd == 0:
                    first[id(p)] = text
                elif first.get(id(p), text) != text:
                    raise Violation(
                        "compile-not-repeatable",
                        f"{fmt(p, leaves)} compiles to different SQL after other relations were compiled in between:\n{first[id(p)][:400]}\n{text[:400]}",
                        nondeterministic=True,
                    )
        stats.c["fresh-process-probes"] += 1
    finally:
        env.close()


def run_case(case, stats):
    from lsst.daf.relation import ColumnError, Diagnostics, EngineError, sql

    global _PROBED
    if not _PROBED:
        _PROBED = True
        fresh_process_probe(stats)
    if case[0] == "opt":
        return run_opt_case(case[1], stats, case)
    universe, leaves, prog, steps = case
    env = Env(leaves)
    try:
        order = [n for n in walk(prog)]
        rels = {}
        pool = []  # (node, relation)
        snaps = {}
        pos = 0
        evaluated = False
        reinspected_after_eval = False
        proc = make_processor(env)

        def nfmt(node):
            return f"optioned call #{node[3]} on {nfmt(node[1])}" if node[0] == "optcall" else fmt(node, leaves)

        expr_cols = {}

        def check_all(after):
            nonlocal reinspected_after_eval
            # expression / predicate objects are shared between calls: what they declare must not drift either
            from vf.core.expr import cols_e, cols_p

            for key, obj in list(env.lib_cache.items()):
                now = frozenset(obj.columns_required)
                want = cols_e(key[1]) if key[0] == "e" else cols_p(key[1])
                if now != want:
                    raise Violation(
                        "expression-object-changed",
                        f"columns_required of the shared {type(obj).__name__} '{obj}' is {set(now)} after step {after}; the expression reads {set(want)}",
                        after=after.split(" ")[0],
                    )
            for node, rel in pool:
                try:
                    h = hash(rel)
                except TypeError as e:
                    raise Violation("unhashable", f"hash() of {str(rel)[:200]} raised {e}; built by {nfmt(node)}", sig=exc_sig(e))
                now = snapshot(rel)
                if now != snaps[id(rel)]:
                    old = snaps[id(rel)]
                    what = [name for name, a, b in zip(("structure/columns/bounds/payload content", "str", "repr", "hash"), old, now) if a != b]
                    raise Violation(
                        "relation-changed",
                        f"{what} of an existing relation changed after step {after}: {str(rel)[:200]} (built by {nfmt(node)})",
                        after=after.split(" ")[0],
                        what=what[0] if what else "",
                    )
            if evaluated and pool:
                reinspected_after_eval = True

        def add(node, rel):
            rels[id(node)] = rel
            if id(rel) not in snaps:
                pool.append((node, rel))
                snaps[id(rel)] = snapshot(rel)

        nsteps = 0
        first_sql = {}
        keep_alive = []
        for kind, arg in steps:
            if kind == "build":
                if pos >= len(order):
                    continue
                node = order[pos]
                pos += 1
                if node[0] == "leaf":
                    add(node, env.leafrels[node[1]])
                    label = f"build {fmt(node, leaves)}"
                else:
                    ops = [rels.get(id(c)) for c in children(node)]
                    if any(o is None for o in ops):
                        continue
                    try:
                        rel = apply_with_mutable_args(node, ops, env)
                    except Exception as e:
                        if is_order_loss(e) or isinstance(e, (ColumnError, EngineError)):
                            stats.c["build:refused"] += 1
                            continue
                        raise Violation("build-raised", f"{fmt(node, leaves)}: {type(e).__name__}: {e}", sig=exc_sig(e))
                    add(node, rel)
                    label = f"build {node[0]}"
            else:
                if not pool:
                    continue
                # two thirds of the steps look at one of the three most recent relations
                tsel = arg // 96
                node, rel = pool[-1 - (tsel % min(3, len(pool)))] if tsel % 3 else pool[tsel % len(pool)]
                label = f"{kind} {str(rel)[:80]}"
                is_sql = isinstance(rel.engine, sql.Engine)
                try:
                    if kind == "compile":
                        if not is_sql:
                            continue
                        a = sql_text(rel.engine.to_executable(rel))
                        b = sql_text(rel.engine.to_executable(rel))
                        if a != b:
                            raise Violation("compile-not-repeatable", f"two compilations of {str(rel)[:200]} differ:\n{a[:300]}\n{b[:300]}")
                        # ... and the same SQL as the first time this relation was compiled, whatever happened in between
                        if first_sql.setdefault(id(rel), (a, rel))[0] != a:
                            raise Violation(
                                "compile-not-repeatable",
                                f"{str(rel)[:200]} compiles to different SQL than earlier in this history:\n{first_sql[id(rel)][0][:400]}\n{a[:400]}",
                            )
                        evaluated = True
                    elif kind == "execute":
                        if is_sql:
                            ex = rel.engine.to_executable(rel)
                            r1 = env.run_sql(ex, list(rel.columns))
                            try:
                                r2 = env.run_sql(rel.engine.to_executable(rel), list(rel.columns))
                            except DatabaseError:
                                raise
                            except Exception as e:
                                raise Violation("execute-not-repeatable", f"the first execution of {str(rel)[:200]} succeeded, the second raised {type(e).__name__}: {str(e)[:200]}", sig=exc_sig(e))
                            from vf.core.prog import multiset

                            same = multiset(r1) == multiset(r2)
                        else:
                            r1 = env.run_iter(rel)
                            try:
                                r2 = env.run_iter(rel)
                            except Exception as e:
                                raise Violation("execute-not-repeatable", f"the first execution of {str(rel)[:200]} succeeded, the second raised {type(e).__name__}: {str(e)[:200]}", sig=exc_sig(e))
                            same = r1 == r2
                        if not same:
                            raise Violation("execute-not-repeatable", f"two executions of {str(rel)[:200]} returned {r1[:5]} and {r2[:5]}")
                        evaluated = True
                    elif kind == "process":
                        proc.process(rel)
                        evaluated = True
                    elif kind == "optcall":
                        # one more factory call with preferred-engine options; an accepted result joins the pool
                        from vf.core.expr import lib_e as _le

                        cols = sorted(rel.columns, key=lambda t: t.qualified_name)
                        which = arg % 4
                        pe = env.engines[(arg // 4) % 3]
                        bits = (arg // 12) % 8
                        o = dict(preferred_engine=pe, backtrack=not (bits & 1), transfer=bool(bits & 2), require_preferred_engine=bits == 4)
                        try:
                            if which == 0 and cols:
                                new = rel.with_only_columns({cols[(arg // 96) % len(cols)]}, **o)
                            elif which == 1 and cols:
                                new = rel.with_rows_satisfying(lib_p(("ge", ("ref", cols[(arg // 96) % len(cols)]), ("lit", 0))), **o)
                            elif which == 2 and cols:
                                from lsst.daf.relation import SortTerm

                                new = rel.sorted([SortTerm(_le(("ref", cols[(arg // 96) % len(cols)])), bool(arg & 16))], **o)
                            else:
                                new = rel.without_duplicates(**o)
                        except (ColumnError, EngineError):
                            new = None
                        except Exception as e:
                            if not is_order_loss(e):
                                raise Violation("optioned-call-raised", f"{type(e).__name__}: {str(e)[:200]} on {str(rel)[:120]} with {o}", sig=exc_sig(e))
                            new = None
                        if new is not None and id(new) not in snaps:
                            pool.append((("optcall", node, which, arg), new))
                            snaps[id(new)] = snapshot(new)
                    elif kind == "diag":
                        Diagnostics.run(rel)
                    elif kind == "hash":
                        hash(rel)
                        {rel: 1}
                    elif kind == "aliens":
                        # unrelated user code builds expression objects that compare equal to ones used by the pool's
                        # relations but are not the same thing (1 == 1.0 == True): nothing in the pool may change
                        from lsst.daf.relation import ColumnExpression, Predicate

                        aliens = [ColumnExpression.literal(float(v)) for v in (-1, 0, 1, 2, 3)]
                        aliens += [ColumnExpression.literal(True), ColumnExpression.literal(False), Predicate.literal(True), Predicate.literal(False)]
                        for t_ in sorted(rel.columns, key=lambda t: t.qualified_name)[:2]:
                            aliens.append(ColumnExpression.reference(t_).eq(ColumnExpression.literal(1.0)))
                            aliens.append(ColumnExpression.reference(t_).method("__add__", ColumnExpression.literal(True)))
                        keep_alive.append(aliens)
                    elif kind == "rebuild":
                        if node[0] == "optcall":
                            continue
                        rels2 = {}
                        try:
                            build_all(node, env, rels2)
                        except BuildError:
                            continue
                        again = rels2[id(node)]
                        if not (again == rel):
                            raise Violation("rebuild-not-equal", f"building {fmt(node, leaves)} twice gives unequal relations: {str(rel)[:150]} vs {str(again)[:150]}")
                        if hash(again) != hash(rel):
                            raise Violation("rebuild-hash-differs", f"equal relations with different hashes: {fmt(node, leaves)}")
                except Violation:
                    raise
                except DatabaseError:
                    stats.c["step:db-error"] += 1
                except TypeError as e:
                    if "unhashable" in str(e):
                        raise Violation("unhashable", f"{kind} of {str(rel)[:200]} raised {e}; built by {nfmt(node)}", sig=exc_sig(e))
                    stats.c["step:engine-refused-" + type(e).__name__] += 1
                except Exception as e:
                    # evaluation steps may legitimately be refused (un-processed transfers, known compile defects);
                    # what matters here is that nothing changed
                    stats.c["step:engine-refused-" + type(e).__name__] += 1
            nsteps += 1
            stats.c[f"step:{kind}"] += 1
            check_all(label)
        for _, (text0, rel0) in list(first_sql.items()):
            try:
                again = sql_text(rel0.engine.to_executable(rel0))
            except Exception:
                continue
            if again != text0:
                raise Violation(
                    "compile-not-repeatable",
                    f"{str(rel0)[:200]} compiles to different SQL at the end of the history than the first time:\n{text0[:400]}\n{again[:400]}",
                )
        if nsteps >= 3 and reinspected_after_eval:
            stats.mark_nontrivial(codec.digest(case), lambda: describe(case), cls="+".join(sorted({k for k, _ in steps})))
    finally:
        env.close()


EXHAUSTIVE_NOTE = "the base x final-operation grid of C03 (vf/checks/c03.py:grid_cases), every option combination: results hashed, earlier relations re-inspected"


def exhaustive(tier, stats, shard, nshards, run):
    from vf.checks import c03

    for idx, body in enumerate(c03.grid_cases(tier)):
        if idx % nshards != shard:
            continue
        case = ("opt", body)
        try:
            run(case)
        except Violation as v:
            v.case = case
            raise
        stats.c["grid_cases"] += 1


def describe(case):
    if case[0] == "opt":
        from vf.checks import c03

        d = c03.describe(case[1])
        d["kind"] = "base + final operation, all option combinations"
        return d
    universe, leaves, prog, steps = case
    return describe_case(universe, leaves, prog, steps=[f"{k}:{a}" for k, a in steps])


def attribute(case, v):
    return None
