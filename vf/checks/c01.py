"""C01 — the iteration engine executes the applied operation sequence exactly."""
from __future__ import annotations

from hypothesis import strategies as st

from vf.core import codec
from vf.core.base import Violation
from vf.core.env import Env, take_rows
from vf.core.gen import Cfg, st_program
from vf.core.prog import (
    BuildError,
    build_all,
    count_op_nodes,
    describe_case,
    ev_list,
    fmt,
    kinds,
    lib_nodes,
    n_ops,
    show_rows,
    walk,
)

ID = "C01"
LEVEL = "exploration"
TECHNIQUE = "property-based differential testing (Hypothesis): iteration engine vs independent list-semantics evaluator, every prefix relation executed"
LEVEL_TEXT = (
    "Bounded exploration: generated programs of 1-8 (quick) / 1-14 (thorough) operations over 1-3 leaves of <= 4 columns and "
    "<= 6 rows in two iteration engines, including transfers between them, materializations, chains, doomed / identity / "
    "zero-column leaves and loose row bounds; rows, multiplicity and order compared with the reference evaluator for the "
    "root and every intermediate relation.  Plus an exhaustive matrix: every subset of {sort, projection, deduplication, "
    "slice} followed by every sequence of 2 (thorough: 3) further operations from a list of 13, on 3 bases x 2 data sets.  "
    "Every second program is also chained with the same program over twin leaves (same names, other rows); calculations, sort "
    "terms and selections may use a user-defined column function that each engine registers with its own meaning."
    "  The object returned by execute() is iterated twice; every third program is topped with a guard selection and "
    "a selection only defined on the guarded rows (floor division); calculations may call a method of the value "
    "(int.bit_length); one expression object using the engine-specific function is applied in both iteration "
    "engines."
    "  Leaves may hold a lazy stored payload (the public ChainRowIterable); after every prefix relation has been executed the root is executed once more and must still give the same rows."
    "  The iteration engines are a subclass implementing apply_custom_unary_operation; every third program is topped with two sequences of three operations mixing user-defined ones (reverse, last row first, even positions, even values) with slices, sorts and selections."
)
LEVEL_NOTE = "trusts: reference evaluator ev_list; assumes the documented key-column precondition (P1) - cases violating it at a deduplication are discarded and counted"
RULE = (
    "case = tag universe (generated hashes, all-key or mixed key/non-key regime) + leaves + a program over {calc, proj, "
    "sel, dedup, sort, slice, chain, materialize, transfer A<->B}; oracle: list(engine.execute(rel)) == ev_list(program) "
    "for the root and for every prefix relation.  Non-trivial: >= 2 operations and some leaf with >= 2 rows; distinct "
    "by digest of the case.  Classes counted: merge/elision fired (library tree has fewer operation nodes than the "
    "program), short-cut fired (some node with max_rows == 0 or join identity), mixed-direction sort, slice over "
    "sort, dedup with duplicates present."
)
ASSUMPTIONS = [
    "P1: rows that agree on key columns agree everywhere at every deduplication (documented ColumnTag.is_key assumption)",
    "leaf row bounds are truthful",
]


def cfg(tier):
    return Cfg(
        engines=(1, 2),
        binary=("chain",),
        markers=("mat", "xfer"),
        max_ops=8 if tier == "quick" else 14,
        p_binary=0.08,
        p_cfun=15,
        p_meth=8,
        iter_variants=("plain", "plain", "custom", "mapping", "lazy"),
    )


def budget(tier):
    return 6000 if tier == "quick" else 150000


def strategy(tier):
    return st_program(cfg(tier))


def classify(prog, leaves, rels, stats):
    ks = kinds(prog)
    root = rels[id(prog)]
    n_prog = sum(1 for k in ks if k in ("calc", "proj", "sel", "dedup", "sort", "slice", "chain"))
    if count_op_nodes(root) < n_prog:
        stats.c["class:merge-or-elision"] += 1
    if any(r.max_rows == 0 or r.is_join_identity for r in lib_nodes(root)):
        stats.c["class:shortcut-node"] += 1
    for n in walk(prog):
        if n[0] == "sort" and len({asc for _, asc in n[2]}) == 2:
            stats.c["class:mixed-direction-sort"] += 1
        if n[0] == "slice" and n[1][0] == "sort":
            stats.c["class:slice-over-sort"] += 1
        if n[0] == "dedup":
            src = ev_list(n[1], leaves)
            if len(src) != len(ev_list(n, leaves)):
                stats.c["class:dedup-with-duplicates"] += 1
    for k in set(ks):
        stats.c[f"op:{k}"] += 1
    stats.c[f"nops:{min(n_ops(prog), 15):02d}"] += 1
    for n in walk(prog):
        if n[0] != "leaf" and n[1][0] == n[0] and n[0] in ("slice", "sort", "sel", "proj"):
            stats.c[f"class:adjacent-{n[0]}-pair"] += 1


_ENGINE_CLS = None


def custom_ops_engine():
    """An iteration engine subclass that executes user-defined operations (documented extension point:
    apply_custom_unary_operation): reverse, last row first, rows with an even value, rows at even positions."""
    global _ENGINE_CLS
    if _ENGINE_CLS is None:
        from lsst.daf.relation import iteration

        from vf.checks.c04 import custom_classes
        from vf.checks.c05 import reverse_operation

        TotalSort, EvenFilter, Alternate, AtLeast, Reverse, DropRepeats, Rotate = custom_classes()

        class CustomOpsEngine(iteration.Engine):
            def apply_custom_unary_operation(self, operation, target):
                rows = list(self.execute(target))
                if isinstance(operation, (Reverse, reverse_operation())):
                    return iteration.RowSequence(rows[::-1])
                if isinstance(operation, Rotate):
                    return iteration.RowSequence(rows[-1:] + rows[:-1])
                if isinstance(operation, Alternate):
                    return iteration.RowSequence(rows[::2])
                if isinstance(operation, EvenFilter):
                    return iteration.RowSequence([r for r in rows if r[operation.tag] % 2 == 0])
                return super().apply_custom_unary_operation(operation, target)

        _ENGINE_CLS = CustomOpsEngine
    return _ENGINE_CLS


def custom_operation_sequences(case, prog, leaves, rels, expected, env, gcols, stats):
    """User-defined operations between built-in ones on top of the program: whatever the factories merge, elide or reorder,
    the engine subclass that implements the operations must return the rows of the applied sequence."""
    from lsst.daf.relation import ColumnExpression, SortTerm

    from vf.checks.c04 import custom_classes

    TotalSort, EvenFilter, Alternate, AtLeast, Reverse, DropRepeats, Rotate = custom_classes()
    t = gcols[0]
    ref = ColumnExpression.reference(t)
    from vf.checks.c05 import reverse_operation

    steps = {
        "reverse": (lambda r: Reverse().apply(r), lambda d: d[::-1]),
        # the same reordering written without any flag (the base-class defaults): still not idempotent
        "flip": (lambda r: reverse_operation()().apply(r), lambda d: d[::-1]),
        "rotate": (lambda r: Rotate().apply(r), lambda d: d[-1:] + d[:-1]),
        "alternate": (lambda r: Alternate().apply(r), lambda d: d[::2]),
        f"even[{t}]": (lambda r: EvenFilter(t).apply(r), lambda d: [x for x in d if x[t] % 2 == 0]),
        "slice[1:3]": (lambda r: r[1:3], lambda d: d[1:3]),
        "slice[0:2]": (lambda r: r[0:2], lambda d: d[0:2]),
        "slice[1:]": (lambda r: r[1:], lambda d: d[1:]),
        f"sort[-{t}]": (lambda r: r.sorted([SortTerm(ref, False)]), lambda d: sorted(d, key=lambda x: -x[t])),
        f"sort[{t}]": (lambda r: r.sorted([SortTerm(ref, True)]), lambda d: sorted(d, key=lambda x: x[t])),
        f"sel[{t}>=0]": (lambda r: r.with_rows_satisfying(ref.ge(ColumnExpression.literal(0))), lambda d: [x for x in d if x[t] >= 0]),
    }
    names = list(steps)
    import hashlib

    dg = hashlib.sha256(codec.digest(case).encode()).hexdigest()
    for k in range(2):
        seq = [names[int(dg[10 + 6 * k + 2 * i : 12 + 6 * k + 2 * i], 16) % len(names)] for i in range(3)]
        if not any(n in ("reverse", "flip", "rotate", "alternate") or n.startswith("even") for n in seq):
            seq[1] = ("reverse", "rotate", "alternate", "flip")[int(dg[8:10], 16) % 4]
        if int(dg[6:8], 16) % 5 == 0:
            seq[2] = seq[1]  # the same operation twice in a row
        rel, exp = rels[id(prog)], expected
        what = f"{fmt(prog, leaves)} then " + " then ".join(seq)
        try:
            for n in seq:
                rel = steps[n][0](rel)
                exp = steps[n][1](exp)
        except Exception as e:
            raise Violation("build-raised", f"{type(e).__name__}: {e}; {what}", exc=e, node_kind="custom")
        try:
            got = env.run_iter(rel)
        except Exception as e:
            raise Violation("execute-raised", f"{type(e).__name__}: {e}; relation {rel}; {what}", exc=e)
        if got != exp:
            raise Violation("rows-differ", f"user-defined operations executed by an engine subclass: {what}; tree {rel}; expected {show_rows(exp)} got {show_rows(got)}")
        stats.c["custom-operation-sequences"] += 1


def run_case(case, stats):
    universe, leaves, prog = case
    memo = {}
    expected = ev_list(prog, leaves, check_fd=True, memo=memo)  # raises OutOfDomain for P1 violations
    env = Env(leaves, iter_engine_cls=custom_ops_engine())
    try:
        try:
            rels = build_all(prog, env)
        except BuildError as b:
            raise Violation(
                "build-raised",
                f"factory call for {fmt(b.node, leaves)} raised {type(b.exc).__name__}: {b.exc}",
                exc=b.exc,
                node_kind=b.node[0],
            )
        order = [prog] + [n for n in walk(prog) if n is not prog and n[0] != "leaf"]
        for node in order:
            rel = rels[id(node)]
            exp = memo[id(node)]
            try:
                result = rel.engine.execute(rel)
                got = take_rows(result)
                again = take_rows(result) if node is prog else got
            except Exception as e:
                raise Violation("execute-raised", f"{type(e).__name__}: {e}; relation {rel}; program {fmt(node, leaves)}", exc=e)
            if got != exp:
                raise Violation(
                    "rows-differ",
                    f"program {fmt(node, leaves)}; tree {rel}; expected {show_rows(exp)} got {show_rows(got)}",
                )
            if again != exp:
                raise Violation(
                    "rows-differ",
                    f"second iteration of the object returned by execute(): program {fmt(node, leaves)}; tree {rel}; expected {show_rows(exp)} got {show_rows(again)}",
                    second_iteration=True,
                )
            if set(rel.columns) != set().union(*[r.keys() for r in exp]) and exp:
                raise Violation("columns-differ", f"{set(rel.columns)} vs row keys; program {fmt(node, leaves)}")
        # evaluation is not allowed to feed on the stored payloads: after all of the executions above, a fresh execution
        # of the root still gives the same rows (a lazy stored payload - ChainRowIterable leaf - that an execution extended
        # in place would show here)
        try:
            once_more = env.run_iter(rels[id(prog)])
        except Exception as e:
            raise Violation("execute-raised", f"re-execution of the root after all prefixes were executed: {type(e).__name__}: {e}; program {fmt(prog, leaves)}", exc=e)
        if once_more != expected:
            raise Violation(
                "rows-differ",
                f"re-execution of the root after every prefix relation was executed: program {fmt(prog, leaves)}; tree {rels[id(prog)]}; expected {show_rows(expected)} got {show_rows(once_more)}",
                reexecution=True,
            )
        # a selection that guards, then a selection that is only defined on the guarded rows (floor division by the guarded
        # column): however the two are merged, executing must give the rows of applying them one after the other
        from vf.core.prog import schema
        from vf.core.tags import sorted_tags

        gcols = sorted_tags(schema(prog, leaves))
        if gcols and int(codec.digest(case)[2:4], 16) % 3 == 1:
            custom_operation_sequences(case, prog, leaves, rels, expected, env, gcols, stats)
        if gcols and int(codec.digest(case)[2:4], 16) % 3 == 0:
            g = gcols[int(codec.digest(case)[4:6], 16) % len(gcols)]
            guarded = ("sel", ("sel", prog, ("ne", ("ref", g), ("lit", 0))), ("ge", ("fdiv", ("lit", 6), ("ref", g)), ("lit", 2)))
            exp_g = ev_list(guarded, leaves, check_fd=True)
            try:
                rel_g = build_all(guarded, env, rels)[id(guarded)]
                got_g = env.run_iter(rel_g)
            except BuildError as b:
                raise Violation("build-raised", f"factory call for {fmt(b.node, leaves)} raised {type(b.exc).__name__}: {b.exc}", exc=b.exc, node_kind="sel")
            except Exception as e:
                raise Violation("execute-raised", f"guard, then a selection defined on the guarded rows only: {type(e).__name__}: {e}; relation {rel_g}; program {fmt(guarded, leaves)}", exc=e)
            if got_g != exp_g:
                raise Violation("rows-differ", f"program {fmt(guarded, leaves)}; tree {rel_g}; expected {show_rows(exp_g)} got {show_rows(got_g)}")
            stats.c["guarded-selection-pairs"] += 1
        # one expression object, two engines: a calculation with the user-defined function (registered by every engine
        # with its own factor) is applied here and, through a transfer, in the other iteration engine - the same library
        # expression object serves both, and each engine must use its own function
        if gcols and int(codec.digest(case)[6:8], 16) % 4 == 0:
            from vf.core.prog import engine_of

            fresh = [t for t in universe if t not in gcols]
            here = engine_of(prog, leaves)
            other = 2 if here == 1 else 1
            if fresh and here in (1, 2):
                c0 = gcols[0]
                first, second = (here, other) if int(codec.digest(case)[8:10], 16) % 2 else (other, here)
                for eng_i in (first, second):
                    src = prog if eng_i == here else ("xfer", prog, other)
                    node = ("calc", src, fresh[0], ("cfun", eng_i, ("ref", c0)))
                    exp_c = ev_list(node, leaves, check_fd=True)
                    try:
                        rel_c = build_all(node, env, rels)[id(node)]
                        got_c = env.run_iter(rel_c)
                    except BuildError as b:
                        raise Violation("build-raised", f"factory call for {fmt(b.node, leaves)} raised {type(b.exc).__name__}: {b.exc}", exc=b.exc, node_kind="calc")
                    except Exception as e:
                        raise Violation("execute-raised", f"{type(e).__name__}: {e}; relation {rel_c}; program {fmt(node, leaves)}", exc=e)
                    if got_c != exp_c:
                        raise Violation("rows-differ", f"one expression object used in two engines: program {fmt(node, leaves)}; tree {rel_c}; expected {show_rows(exp_c)} got {show_rows(got_c)}")
                stats.c["shared-expression-two-engines"] += 1
        # equal relations are not interchangeable: the same program over twin leaves (same names, columns and engines,
        # other rows) builds trees that compare equal to the ones above; chaining the two must concatenate their rows
        if int(codec.digest(case)[:2], 16) % 2 == 0:
            from vf.core.prog import twin_leaves

            leaves2 = twin_leaves(leaves)
            tw = env.twin(leaves2)
            try:
                from vf.core.prog import OutOfDomain

                try:
                    exp2 = ev_list(prog, leaves2, check_fd=True)
                except OutOfDomain:
                    exp2 = None
                rels2 = build_all(prog, tw) if exp2 is not None else None
                if exp2 is None:
                    raise BuildError(None, None)
                try:
                    both = rels[id(prog)].chain(rels2[id(prog)])
                    got = env.run_iter(both)
                except Exception as e:
                    raise Violation("execute-raised", f"chain with the twin-leaf copy: {type(e).__name__}: {e}; program {fmt(prog, leaves)}", exc=e)
                if got != expected + exp2:
                    raise Violation(
                        "rows-differ",
                        f"program {fmt(prog, leaves)} chained with the same program over twin leaves (same names, other rows); tree {both}; "
                        f"expected {show_rows(expected + exp2)} got {show_rows(got)}",
                    )
                stats.c["twin-chains"] += 1
            except BuildError:
                pass
            finally:
                tw.close_tables()
        classify(prog, leaves, rels, stats)
        if n_ops(prog) >= 2 and any(len(l[2]) >= 2 for l in leaves if l[4] == "data"):
            ks = kinds(prog)
            cls = "+".join(sorted({k for k in ks if k in ("chain", "mat", "xfer", "dedup", "sort", "slice")})) or "rowwise"
            stats.mark_nontrivial(codec.digest(case), lambda: describe(case), cls=cls)
    finally:
        env.close()


EXHAUSTIVE_NOTE = "vf/core/matrix.py in the iteration engine: every subset of {sort, projection, deduplication, slice} on 3 bases x 2 data sets, followed by every sequence of 2 (thorough: 3) further operations from a list of 13"


def exhaustive(tier, stats, shard, nshards, run):
    from vf.core.matrix import select_matrix

    import itertools

    plans = itertools.chain(
        select_matrix(1, 1, bases=("leaf", "sel", "chain")),  # includes the special families of the matrix module
        select_matrix(2 if tier == "quick" else 3, 1, bases=("leaf", "sel", "chain")),
    )
    for idx, (label, case) in enumerate(plans):
        if idx % nshards != shard:
            continue
        try:
            run(case)
        except Violation as v:
            v.case = case
            raise
        stats.c["matrix_cases"] += 1


def describe(case):
    return describe_case(*case)


def attribute(case, v):
    return None
