"""C16 — Diagnostics never dooms a non-empty relation; exact with a truthful executor."""
from __future__ import annotations

from hypothesis import strategies as st

from vf.core import codec
from vf.core.base import Violation
from vf.core.env import Env
from vf.core.expr import Undecodable
from vf.core.gen import Cfg, st_program
from vf.core.prog import BuildError, build_all, decode, describe_case, engine_of, ev_bag, fmt, kinds, lib_nodes, n_ops, walk
from vf.checks.c02 import is_order_loss

ID = "C16"
LEVEL = "exploration"
TECHNIQUE = "property-based testing (Hypothesis): Diagnostics.run with no executor and with a ground-truth executor vs real emptiness from the reference evaluator"
LEVEL_TEXT = (
    "Bounded exploration: generated trees in the SQL engine, in the iteration engines and across engines (transfers, "
    "materializations, doomed and identity leaves, trivially false predicates, zero-length slices, empty windows). "
    "Without executor a doomed verdict must imply an empty true result; with an executor that answers from ground "
    "truth the verdict must equal emptiness exactly and carry a message.  Every second program is first built and "
    "diagnosed over twin leaves (same names, fewer rows) in the same engines; a user-defined, not empty-invariant RowFilter "
    "is put on top of iteration roots and answered for by the truthful executor."
    "  Trees with materializations are evaluated (payloads attached) and diagnosed again, with and without the "
    "executor."
    "  For iteration-only programs the program over twin leaves (same leaf names, other rows) and the program itself are also chained into ONE tree and diagnosed with an executor that really executes what it is asked about."
)
LEVEL_NOTE = (
    "trusts: the harness executor answers from the reference evaluator applied to the decoded sub-relation it is handed "
    "(truthful by construction, independent of engine defects); cases whose emptiness is legitimately ambiguous (LIMIT "
    "without order feeding a filter) are excluded from the exactness half and counted"
)
RULE = (
    "case = multi-engine program.  Oracles: Diagnostics.run(rel).is_doomed => ev(program) == []; with the truthful "
    "executor is_doomed <=> ev(program) == [] and is_doomed => messages non-empty; the executor must only be asked about "
    "relations of the tree.  Non-trivial: the tree has an operation that is not empty-invariant (selection, slice, join) "
    "or a doomed leaf; both outcomes are counted (class doomed / not doomed); distinct by case digest."
)
ASSUMPTIONS = ["P1, P4, P8", "emptiness of ambiguous results is excluded (counted)"]


def cfg(tier, which):
    n = 7 if tier == "quick" else 12
    if which == "sql":
        return Cfg(engines=(0,), max_ops=n, p_binary=0.3, avoid=frozenset(["D11"]), markers=("mat",), p_plit=25, p_wrap=30, p_member=8)
    if which == "iter":
        return Cfg(engines=(1, 2), binary=("chain",), markers=("mat", "xfer"), max_ops=n, p_binary=0.2, p_plit=25, p_wrap=30, p_member=8)
    return Cfg(engines=(0, 1, 2), binary=("chain",), markers=("mat", "xfer", "xfer"), max_ops=n, p_binary=0.2, avoid=frozenset(["D11"]), p_plit=25, p_wrap=30, p_member=8)


def budget(tier):
    return 5000 if tier == "quick" else 60000


def strategy(tier):
    return st.one_of(
        st.tuples(st.just("sql"), st_program(cfg(tier, "sql"))),
        st.tuples(st.just("iter"), st_program(cfg(tier, "iter"))),
        st.tuples(st.just("multi"), st_program(cfg(tier, "multi"))),
    )


class Ambiguous(Exception):
    pass


def run_case(case, stats):
    from lsst.daf.relation import ColumnError, Diagnostics, EngineError

    which, (universe, leaves, prog) = case
    env = Env(leaves)
    try:
        rels = {}
        try:
            build_all(prog, env, rels)
        except BuildError as b:
            if not (is_order_loss(b.exc) or isinstance(b.exc, (ColumnError, EngineError))):
                raise Violation("build-raised", f"{fmt(b.node, leaves)}: {type(b.exc).__name__}: {b.exc}", exc=b.exc)
            stats.c["build:refused"] += 1
            return
        root = rels[id(prog)]
        # equal relations may differ in content: the same program over twin leaves (same engines, names and columns;
        # fewer rows) is built and diagnosed first - nothing learnt about it may leak into the verdict below
        if int(codec.digest(case)[:2], 16) % 2 == 0:
            from vf.core.prog import twin_leaves

            tw = env.twin(twin_leaves(leaves))
            try:
                rels2 = {}
                build_all(prog, tw, rels2)
                Diagnostics.run(rels2[id(prog)])
                for n in lib_nodes(rels2[id(prog)]):
                    n.min_rows, n.max_rows
                stats.c["twin-programs-first"] += 1
                twin_root = rels2[id(prog)]
            except Exception:
                twin_root = None
            try:
                # relations that print the same are not the same: the program over the twin leaves (same leaf names) and
                # the program itself in ONE tree, diagnosed with an executor that really executes what it is asked about
                if twin_root is not None and all(engine_of(n, leaves) != 0 for n in walk(prog)):
                    for what, both in (("twin program chained with the program", lambda: twin_root.chain(root)), ("program chained with its twin", lambda: root.chain(twin_root))):
                        try:
                            tree = both()
                        except (ColumnError, EngineError):
                            continue

                        def run_it(rel):
                            return len(env.run_iter(rel)) > 0

                        try:
                            has_rows = run_it(tree)
                            dd = Diagnostics.run(tree, run_it)
                        except Violation:
                            raise
                        except Exception as e:
                            raise Violation("diagnostics-raised", f"{what} (same leaf names, other rows): {type(e).__name__}: {e}; program {fmt(prog, leaves)}", exc=e)
                        if dd.is_doomed == has_rows:
                            raise Violation(
                                "doomed-but-has-rows" if dd.is_doomed else "not-doomed-but-empty",
                                f"{what} (two distinct sets of leaves with the same names in one tree), executor that executes: is_doomed={dd.is_doomed}, tree has rows: {has_rows}; messages {dd.messages}; program {fmt(prog, leaves)}; tree {str(tree)[:300]}",
                                half="executor",
                            )
                        stats.c["twin-in-one-tree"] += 1
            finally:
                tw.close_tables()
        truth = ev_bag(prog, leaves)
        empty_known = truth.det or truth.count is not None
        is_empty = (len(truth.rows) == 0) if truth.det else (truth.count == 0)
        ctx = f"program {fmt(prog, leaves)}; tree {root}"
        # ---- static half
        try:
            d0 = Diagnostics.run(root)
        except Exception as e:
            raise Violation("diagnostics-raised", f"{type(e).__name__}: {e}; {ctx}", exc=e)
        if d0.is_doomed:
            stats.c["static:doomed"] += 1
            if empty_known and not is_empty:
                raise Violation("doomed-but-has-rows", f"static verdict doomed, true rows {truth.rows[:4]}; messages {d0.messages}; {ctx}", half="static")
            if not truth.det and truth.rows == [] :
                pass
            if not d0.messages:
                raise Violation("doomed-without-message", f"static doomed verdict has no message; {ctx}", half="static")
        else:
            stats.c["static:not-doomed"] += 1
        # ---- executor half
        asked = []
        state = {"ambiguous": False}

        def executor(rel):
            asked.append(rel)
            try:
                sub = decode(rel, env)
                r = ev_bag(sub, leaves)
            except (Undecodable, KeyError) as e:
                state["ambiguous"] = True
                return True
            if r.det:
                return len(r.rows) > 0
            if r.count is not None:
                return r.count > 0
            state["ambiguous"] = True
            return True

        try:
            d1 = Diagnostics.run(root, executor)
        except Exception as e:
            raise Violation("diagnostics-raised", f"with executor: {type(e).__name__}: {e}; {ctx}", exc=e)
        stats.c["executor_calls"] += len(asked)
        if state["ambiguous"] or not empty_known:
            stats.c["exactness:skipped-ambiguous"] += 1
        else:
            if d1.is_doomed != is_empty:
                kind = "doomed-but-has-rows" if d1.is_doomed else "not-doomed-but-empty"
                raise Violation(
                    kind,
                    f"verdict with truthful executor: is_doomed={d1.is_doomed}, true rows {truth.rows[:4]} (n={len(truth.rows)}); messages {d1.messages}; {ctx}",
                    half="executor",
                )
            if d1.is_doomed and not d1.messages:
                raise Violation("doomed-without-message", f"doomed verdict (executor) has no message; {ctx}", half="executor")
            stats.c["exact:doomed" if is_empty else "exact:not-doomed"] += 1
        # a user-defined RowFilter (extension point) that may remove every row: "keep rows whose value in a column is a
        # multiple of 3"; it is not empty-invariant, so a truthful executor must be consulted about the relation it heads
        if truth.det and not state["ambiguous"] and root.columns and root.engine is not env.sql:
            t = sorted(root.columns, key=lambda c: c.qualified_name)[0]
            flt = keep_multiples_filter()(t, 3)
            try:
                top = flt.apply(root)
            except Exception as e:
                raise Violation("custom-filter-raised", f"applying a user-defined RowFilter raised {type(e).__name__}: {e}; {ctx}", exc=e)
            kept = [r for r in truth.rows if r[t] % 3 == 0]

            def executor2(rel):
                if rel is top:
                    return len(kept) > 0
                return executor(rel)

            try:
                d2 = Diagnostics.run(top, executor2)
            except Exception as e:
                raise Violation("diagnostics-raised", f"with executor, user-defined RowFilter on top: {type(e).__name__}: {e}; {ctx}", exc=e)
            if not state["ambiguous"]:
                if d2.is_doomed != (not kept):
                    raise Violation(
                        "doomed-but-has-rows" if d2.is_doomed else "not-doomed-but-empty",
                        f"user-defined RowFilter (keeps rows whose {t} is a multiple of 3; may remove every row) on top: is_doomed={d2.is_doomed} with a truthful "
                        f"executor, true rows {kept[:4]} (n={len(kept)}); messages {d2.messages}; {ctx}",
                        half="executor-custom-filter",
                    )
                if d2.is_doomed and not d2.messages:
                    raise Violation("doomed-without-message", f"doomed verdict (executor, custom filter) has no message; {ctx}", half="executor")
                stats.c["custom-filter:" + ("doomed" if not kept else "not-doomed")] += 1
        # history: the tree is evaluated (iteration execute, or Processor.process for multi-engine / SQL trees), which
        # attaches payloads to its materializations, and is then diagnosed again with the same truthful executor
        if "mat" in kinds(prog) and truth.det and not state["ambiguous"] and empty_known:
            from lsst.daf.relation import Materialization


            try:
                if which == "iter":
                    env.run_iter(root)
                else:
                    from vf.core.proc import make_processor

                    make_processor(env).process(root)
                evaluated = any(isinstance(n, Materialization) and n.payload is not None for n in lib_nodes(root))
            except Exception:
                evaluated = False  # (executability is the subject of other properties)
            if evaluated:
                asked.clear()
                try:
                    d3 = Diagnostics.run(root, executor)
                    d4 = Diagnostics.run(root)
                except Exception as e:
                    raise Violation("diagnostics-raised", f"after the tree was evaluated: {type(e).__name__}: {e}; {ctx}", exc=e)
                if not state["ambiguous"]:
                    if d3.is_doomed != is_empty:
                        raise Violation(
                            "doomed-but-has-rows" if d3.is_doomed else "not-doomed-but-empty",
                            f"after the tree was evaluated (materializations carry payloads), verdict with truthful executor: is_doomed={d3.is_doomed}, true rows {truth.rows[:4]}; messages {d3.messages}; {ctx}",
                            half="executor-after-evaluation",
                        )
                    if d3.is_doomed and not d3.messages:
                        raise Violation("doomed-without-message", f"doomed verdict (executor, after the tree was evaluated) has no message; {ctx}", half="executor-after-evaluation")
                if d4.is_doomed and not is_empty:
                    raise Violation("doomed-but-has-rows", f"after the tree was evaluated, static verdict doomed, true rows {truth.rows[:4]}; messages {d4.messages}; {ctx}", half="static-after-evaluation")
                if d4.is_doomed and not d4.messages:
                    raise Violation("doomed-without-message", f"doomed verdict (static, after the tree was evaluated) has no message; {ctx}", half="static-after-evaluation")
                stats.c["history:diagnosed-after-evaluation"] += 1
        ks = set(kinds(prog))
        if ks & {"sel", "slice", "join"} or any(l[4] == "doomed" for l in leaves):
            cls = which + "/" + ("empty" if (empty_known and is_empty) else "nonempty" if empty_known else "ambiguous")
            stats.mark_nontrivial(codec.digest(case), lambda: describe(case), cls=cls)
    finally:
        env.close()


_KEEP = None


def keep_multiples_filter():
    global _KEEP
    if _KEEP is None:
        import dataclasses

        from lsst.daf.relation import ColumnTag, RowFilter

        @dataclasses.dataclass(frozen=True)
        class KeepMultiples(RowFilter):
            tag: ColumnTag
            k: int

            def __str__(self):
                return f"multiples[{self.tag}%{self.k}]"

            @property
            def columns_required(self):
                return frozenset({self.tag})

            @property
            def is_order_dependent(self):
                return False

            @property
            def is_empty_invariant(self):
                return False

            def applied_max_rows(self, target):
                return target.max_rows

        _KEEP = KeepMultiples
    return _KEEP


def describe(case):
    return describe_case(*case[1], engines=case[0])


def attribute(case, v):
    return None
