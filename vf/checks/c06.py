"""C06 — static metadata (columns, row bounds, triviality flags) is truthful."""
from __future__ import annotations

from hypothesis import strategies as st

from vf.core import codec
from vf.core.base import Violation
from vf.core.env import DatabaseError, Env
from vf.core.expr import Undecodable
from vf.core.gen import Cfg, st_program
from vf.core.prog import (
    BuildError,
    build_all,
    compare,
    decode,
    describe_case,
    ev_bag,
    ev_list,
    fmt,
    kinds,
    lib_nodes,
    n_ops,
    schema,
)
from vf.core.sqlh import CompileError, compile_and_run
from vf.checks.c02 import is_order_loss

ID = "C06"
LEVEL = "exploration"
TECHNIQUE = "property-based testing (Hypothesis): every node of every built tree decoded and evaluated by the reference evaluator, compared with the node's declared columns / row bounds / triviality flags"
LEVEL_TEXT = (
    "Bounded exploration: generated programs in the SQL engine and in the iteration engines (leaf bounds exact, [0,n], "
    "[n,None], [0,None], loose; doomed, identity and zero-column leaves).  For the root and every sub-node the true "
    "content is computed by the reference evaluator from the decoded sub-tree - never by the engine, which trusts "
    "the flags under test - and compared with columns, [min_rows, max_rows], is_join_identity and max_rows == 0; the "
    "engine's own result for the root must agree as well, and afterwards every leaf is executed again: it must still "
    "yield its own rows within its declared bounds.  The executed row count and row keys of the root are held against "
    "the declared bounds / columns; a user-defined empty-invariant RowFilter relying on the base-class bounds is applied to "
    "every iteration root; every second program is first built and inspected over twin leaves in the same engines."
    "  A fifth of the cases are (base tree, final operation, preferred-engine options): declared columns of every "
    "node of the result against the decoded sub-tree, executed rows of the result against its bounds."
)
LEVEL_NOTE = "trusts: decode() of library trees through public dataclass fields, reference evaluator; leaves' declared bounds are truthful by construction"
RULE = (
    "case = (engine family, program).  Oracle per library node n with true rows T = ev(decode(n)): keys of every row "
    "of T == n.columns; n.min_rows <= |T| <= n.max_rows; n.is_join_identity => T == [{}]; n.max_rows == 0 => T == []; "
    "nodes whose content is ambiguous (LIMIT without order) are checked on the row count when that is still "
    "determined, else skipped and counted.  Root: engine result agrees with T; each leaf re-executed afterwards gives its rows.  Non-trivial: the program has a "
    "bound-changing operation (slice, dedup, join, chain, selection) and a leaf whose declared bounds are not [0, None]; "
    "distinct by case digest."
)
ASSUMPTIONS = ["P1, P4, P8", "leaf bounds truthful (generated so)"]


def cfg(tier, which):
    n = 8 if tier == "quick" else 12
    if which == "sql":
        return Cfg(engines=(0,), max_ops=n, p_binary=0.25, avoid=frozenset(["D9", "D10", "D11"]), prelude=0.3)
    return Cfg(engines=(1, 2), binary=("chain",), markers=("mat", "xfer"), max_ops=n, p_binary=0.15)


def budget(tier):
    return 5000 if tier == "quick" else 80000


def strategy(tier):
    from vf.checks import c03

    return st.one_of(
        st.tuples(st.just("sql"), st_program(cfg(tier, "sql"))),
        st.tuples(st.just("sql"), st_program(cfg(tier, "sql"))),
        st.tuples(st.just("iter"), st_program(cfg(tier, "iter"))),
        st.tuples(st.just("iter"), st_program(cfg(tier, "iter"))),
        # relations obtained through preferred-engine options (operations inserted upstream, downstream operations
        # re-applied on top): their declared columns and row bounds must be as truthful as anybody else's
        st.tuples(st.just("opt"), c03.st_case(tier)),
    )


def run_opt_case(body, stats, case):
    import itertools

    from lsst.daf.relation import ColumnError, EngineError

    from vf.checks import c03
    from vf.core.proc import execute_processed, make_processor
    from vf.core.prog import OutOfDomain, ev_multi

    universe, leaves, S, base, final, *rest = body
    if final[0] == "join":
        full = ("join", ("leaf", final[2][1]), base, final[3]) if final[4] else ("join", base, final[2], final[3])
    else:
        full = (final[0], base) + tuple(final[2:])
    truth = ev_multi(full, leaves)  # OutOfDomain (P1) discards the case
    env = Env(leaves)
    try:
        rels = {}
        try:
            build_all(base, env, rels)
        except BuildError:
            return
        root = rels[id(base)]
        fixed_rel = env.leafrels[final[2][1]] if final[0] == "join" else None
        checked = 0
        for pref, bits in itertools.product((S, 1) if final[0] != "join" else (S,), range(8 if final[0] != "join" else 4)):
            o = dict(backtrack=bool(bits & 1), transfer=bool(bits & 2))
            if final[0] != "join":
                o["require_preferred_engine"] = bool(bits & 4)
                o["preferred_engine"] = env.engines[pref]
            label = f"preferred=E{pref} " + " ".join(f"{k}={v}" for k, v in o.items() if k != "preferred_engine")
            try:
                res = c03.issue(final, root, fixed_rel, env, o)
            except Exception:
                continue  # which requests are refused is the subject of C03 / C20
            what = f"{final[0]} with {label} on {fmt(base, leaves)}"
            for n in lib_nodes(res):
                try:
                    dec = decode(n, env)
                    want = set(schema(dec, leaves))
                except Exception:
                    continue
                if set(n.columns) != want:
                    raise Violation("columns-untruthful", f"declared columns {set(n.columns)} != schema of the decoded sub-tree {want}; node {str(n)[:200]} of the result of {what}", field="columns")
            try:
                rows = execute_processed(env, make_processor(env).process(res))
            except Exception:
                continue  # executability of what the options return is C03's subject
            if truth.det or truth.ordered:
                check_executed_bounds(res, rows, what)
            else:
                want = set(res.columns)
                for r in rows:
                    if set(r.keys()) != want:
                        raise Violation("columns-untruthful", f"executed row keys {set(r.keys())} != declared columns {want}; result of {what}", field="columns-executed")
            checked += 1
        stats.c["opt:results-checked"] += checked
        if checked:
            stats.mark_nontrivial(codec.digest(case), lambda: describe(case), cls=f"opt/{final[0]}")
    finally:
        env.close()


def check_node(n, leaves, env, which, stats):
    try:
        dec = decode(n, env)
    except Undecodable as e:
        raise Violation("undecodable", f"{e}")
    try:
        if which == "iter":
            rows = ev_list(dec, leaves, check_fd=True)
            count = len(rows)
            det = True
        else:
            res = ev_bag(dec, leaves)
            rows, count, det = res.rows, res.count, res.det
    except KeyError:
        # the tree applies an operation to a relation that lacks a column it needs: structural well-formedness is
        # the subject of C14 (and of the known finding D10); nothing can be said about metadata truthfulness here
        stats.c["node:illformed-skipped"] += 1
        return
    ctx = f"node {str(n)[:200]} (decoded: {fmt(dec, leaves)[:200]})"
    lo, hi = n.min_rows, n.max_rows
    if count is None:
        stats.c["node:count-ambiguous-skipped"] += 1
    else:
        stats.c["node:bounds-checked"] += 1
        if count < lo or (hi is not None and count > hi):
            raise Violation("bounds-untruthful", f"true row count {count} outside [{lo}, {hi}]; {ctx}", field="bounds")
        if n.is_join_identity and not (count == 1 and not n.columns):
            raise Violation("identity-flag-untruthful", f"is_join_identity but {count} rows / columns {set(n.columns)}; {ctx}", field="identity")
        if n.is_trivial and not (n.is_join_identity or count == 0):
            raise Violation("trivial-flag-untruthful", f"is_trivial but {count} rows; {ctx}", field="trivial")
    if det or rows:
        want = set(n.columns)
        for r in rows:
            if set(r.keys()) != want:
                raise Violation("columns-untruthful", f"true row keys {set(r.keys())} != declared columns {want}; {ctx}", field="columns")
    if set(schema(dec, leaves)) != set(n.columns):
        raise Violation("columns-untruthful", f"declared columns {set(n.columns)} != schema of the decoded sub-tree {set(schema(dec, leaves))}; {ctx}", field="columns")


def check_executed_bounds(root, rows, what):
    """The statement as written: the executed row count lies within the relation's declared bounds, every executed row
    has exactly the relation's columns."""
    lo, hi = root.min_rows, root.max_rows
    if len(rows) < lo or (hi is not None and len(rows) > hi):
        raise Violation("bounds-untruthful", f"executed row count {len(rows)} outside the declared [{lo}, {hi}]; tree {str(root)[:300]}; program {what}", field="bounds-executed")
    want = set(root.columns)
    for r in rows:
        if set(r.keys()) != want:
            raise Violation("columns-untruthful", f"executed row keys {set(r.keys())} != declared columns {want}; tree {str(root)[:300]}", field="columns-executed")


_KEEP_MAX = None


def custom_filter_bounds(root, rows, env, stats):
    """A user-defined RowFilter that relies on the base-class row bounds (extension point): it keeps the rows holding the
    largest value of a column, so it truthfully declares itself empty-invariant; the bounds the library derives for
    the resulting relation must contain the true count."""
    global _KEEP_MAX
    import dataclasses

    from lsst.daf.relation import ColumnTag, RowFilter

    cols = sorted(root.columns, key=lambda t: t.qualified_name)
    if not cols:
        return
    if _KEEP_MAX is None:

        @dataclasses.dataclass(frozen=True)
        class KeepMax(RowFilter):
            tag: ColumnTag

            def __str__(self):
                return f"keepmax[{self.tag}]"

            @property
            def columns_required(self):
                return frozenset({self.tag})

            @property
            def is_order_dependent(self):
                return False

            @property
            def is_empty_invariant(self):
                return True

            def applied_max_rows(self, target):
                return target.max_rows

        _KEEP_MAX = KeepMax
    t = cols[0]
    try:
        rel = _KEEP_MAX(t).apply(root)
    except Exception as e:
        raise Violation("custom-filter-raised", f"applying a user-defined RowFilter raised {type(e).__name__}: {e}; target {str(root)[:200]}", exc=e)
    top = max((r[t] for r in rows), default=None)
    count = sum(1 for r in rows if r[t] == top)
    lo, hi = rel.min_rows, rel.max_rows
    if count < lo or (hi is not None and count > hi):
        raise Violation(
            "bounds-untruthful",
            f"user-defined empty-invariant RowFilter (keeps the rows with the largest {t}) over {str(root)[:200]}: true row count {count} outside the derived [{lo}, {hi}]",
            field="bounds-custom-filter",
        )
    stats.c["custom-filter:bounds-checked"] += 1


def run_case(case, stats):
    from lsst.daf.relation import ColumnError, EngineError

    if case[0] == "opt":
        return run_opt_case(case[1], stats, case)
    which, (universe, leaves, prog) = case
    if which == "iter":
        ev_list(prog, leaves, check_fd=True)  # OutOfDomain for P1 violations
    env = Env(leaves)
    try:
        rels = {}
        try:
            build_all(prog, env, rels)
        except BuildError as b:
            if not (is_order_loss(b.exc) or isinstance(b.exc, (ColumnError, EngineError))):
                raise Violation("build-raised", f"{fmt(b.node, leaves)}: {type(b.exc).__name__}: {b.exc}", exc=b.exc)
            stats.c["build:refused"] += 1
            return
        root = rels[id(prog)]
        # equal relations may differ in row bounds and content: the same program is first built and inspected over twin
        # leaves (same engines, names and columns; fewer rows, exact bounds), then the original is inspected
        if int(codec.digest(case)[:2], 16) % 2 == 0:
            from vf.core.prog import OutOfDomain, twin_leaves

            leaves2 = twin_leaves(leaves)
            tw = env.twin(leaves2)
            try:
                rels2 = {}
                build_all(prog, tw, rels2)
                seen2 = set()
                for n in lib_nodes(rels2[id(prog)]):
                    if id(n) not in seen2:
                        seen2.add(id(n))
                        check_node(n, leaves2, tw, which, stats)
                stats.c["twin-programs"] += 1
            except (BuildError, OutOfDomain):
                pass
            finally:
                tw.close_tables()
        seen = set()
        for n in lib_nodes(root):
            if id(n) in seen:
                continue
            seen.add(id(n))
            check_node(n, leaves, env, which, stats)
        # the engine's own answer for the root (shows that consumers of the flags did not change a result)
        if which == "iter":
            exp = ev_list(prog, leaves, check_fd=True)
            try:
                got = env.run_iter(root)
            except Exception as e:
                raise Violation("execute-raised", f"{type(e).__name__}: {e}; {root}", exc=e)
            if got != exp:
                raise Violation("engine-disagrees", f"iteration engine returned {got[:6]} expected {exp[:6]}; tree {root}")
            check_executed_bounds(root, got, fmt(prog, leaves))
            custom_filter_bounds(root, exp, env, stats)
        else:
            from lsst.daf.relation import Materialization

            if not any(isinstance(r, Materialization) and r.payload is None for r in lib_nodes(root)):
                res = ev_bag(prog, leaves)
                try:
                    outs, ex = compile_and_run(env, root)
                except (CompileError, DatabaseError):
                    stats.c["root:uncompilable"] += 1
                    outs = None
                if outs is not None:
                    for rows in outs:
                        bad = compare(res, rows)
                        if bad:
                            raise Violation("engine-disagrees", f"{bad}; program {fmt(prog, leaves)}; tree {root}")
                        check_executed_bounds(root, rows, fmt(prog, leaves))
        # after everything above was compiled / executed, each leaf still executes to its own rows, within its declared
        # bounds (the leaves' truthfulness is the premise of every other statement here)
        from vf.core.prog import leaf_indices, leaf_rows, multiset

        for i in sorted(leaf_indices(prog)):
            if leaves[i][4] != "data":
                continue
            lrel = env.leafrels[i]
            try:
                got = env.run_iter(lrel) if which == "iter" else compile_and_run(env, lrel)[0][0]
            except (CompileError, DatabaseError):
                continue
            except Exception as e:
                raise Violation("execute-raised", f"re-executing leaf {leaves[i][0]} raised {type(e).__name__}: {e}", exc=e)
            want = leaf_rows(leaves[i])
            lo, hi = lrel.min_rows, lrel.max_rows
            if not (lo <= len(got) and (hi is None or len(got) <= hi)) or multiset(got) != multiset(want):
                raise Violation(
                    "leaf-content-changed",
                    f"leaf {leaves[i][0]} (declared bounds [{lo}, {hi}], {len(want)} rows) executes to {len(got)} rows {got[:6]} after the program {fmt(prog, leaves)} was executed",
                )
            stats.c["leaves_reexecuted"] += 1
        ks = set(kinds(prog))
        bounded = any(l[4] != "data" or l[5] != (0, None) for l in leaves)
        if ks & {"slice", "dedup", "join", "chain", "sel"} and bounded:
            cls = which + "/" + "+".join(sorted(ks & {"slice", "dedup", "join", "chain", "sel"}))
            stats.mark_nontrivial(codec.digest(case), lambda: describe(case), cls=cls)
        stats.c[f"{which}:nodes"] += len(seen)
    finally:
        env.close()


def describe(case):
    if case[0] == "opt":
        from vf.checks import c03

        d = c03.describe(case[1])
        d["kind"] = "base + final operation, preferred-engine option combinations"
        return d
    return describe_case(*case[1], engine=case[0])


def attribute(case, v):
    return None
