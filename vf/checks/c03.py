"""C03 — preferred-engine (backtracking) insertion never changes relation content."""
from __future__ import annotations

import itertools

from hypothesis import strategies as st

from vf.core import codec
from vf.core.base import Violation
from vf.core.env import DatabaseError, Env
from vf.core.expr import st_pred
from vf.core.gen import Cfg, st_program, st_unary_node
from vf.core.proc import execute_processed, make_processor
from vf.core.prog import (
    BuildError,
    apply_node,
    build_all,
    compare,
    describe_case,
    engine_of,
    ev_multi,
    fmt,
    kinds,
    leaf_indices,
    lib_nodes,
    n_ops,
    schema,
    walk,
)
from vf.checks.c02 import is_order_loss
from vf.runner import exc_sig

ID = "C03"
LEVEL = "exploration"
TECHNIQUE = "property-based metamorphic testing (Hypothesis): one operation applied with every preferred-engine option combination vs the same operation at the root; results processed by a real Processor and compared with an independent evaluator"
LEVEL_TEXT = (
    "Bounded exploration: generated base trees (0-3 operations in a source engine S - SQL, or a second iteration engine "
    "for exact order -, a transfer to an iteration engine T, 0-4 operations and materializations in T), then one further "
    "unary operation or join issued with all combinations of preferred_engine in {S, T, third engine}, backtrack, "
    "transfer, require_preferred_engine (24 calls per tree for unary operations; join: backtrack x transfer x fixed side).  "
    "The same request is repeated on a processed base tree and on a twin tree (same names, other rows); a user-defined "
    "RowFilter that keeps the base-class commute() is requested with every option combination (it must stay in the tree).  "
    "One base in five is forked: a chain in T of two branches transferred from upstream, each with its own operations; after "
    "join requests the join's predicate object is re-used in a backtracked selection on the same tree."
)
LEVEL_NOTE = "trusts: ev_multi + labels, the harness Processor, SQLite; P1, P4, P8; joins only with S = SQL (the iteration engine does not execute joins)"
RULE = (
    "case = (S, base program ending in T, final operation).  For every option combination: no ColumnError when the "
    "plain call is accepted; EngineError only if require_preferred_engine and not transfer (unary) / not transfer "
    "(join); columns equal the plain result's; rows of the processed result compare equal to ev_multi(base + op); "
    "transfer=True => result lives in the preferred engine unless the operation was fully inserted there; "
    "require_preferred_engine and no exception => no engine other than the preferred one holds more operation nodes "
    "than before.  Non-trivial: preferred != current engine and >= 1 operation between the root and the transfer; "
    "classes moved / partially moved / not moved are counted; distinct by case digest."
)
ASSUMPTIONS = ["P1, P4, P8"]

UNARY = ("calc", "proj", "sel", "dedup", "sort", "slice")


def budget(tier):
    return 2500 if tier == "quick" else 40000


@st.composite
def st_case(draw, tier, p_restricted=0, p_mat=1, p8=True):
    # S: engine of the upstream program (and the preferred engine of most requests), T: engine the tree is rooted in
    # (0 = SQL, 1 / 2 = iteration engines); one tree in five is rooted in the SQL engine over an iteration-engine source
    S, T = draw(st.sampled_from([(0, 1), (0, 1), (0, 1), (0, 1), (2, 1), (2, 1), (1, 0), (2, 0)]))
    up_cfg = Cfg(
        engines=(S,),
        max_ops=3,
        min_ops=0 if False else 1,
        binary=("chain", "join") if S == 0 else ("chain",),
        p_binary=0.15,
        avoid=frozenset(["D9", "D10", "D11"]),
        max_leaves=2,
        p_restricted=p_restricted,
    )
    universe, leaves, up = draw(st_program(up_cfg))
    if draw(st.integers(0, 4)) == 0:
        up = ("leaf", draw(st.integers(0, len(leaves) - 1)))
    cfg = Cfg(engines=(S, T), max_ops=4, p_restricted=p_restricted)
    counter = 0
    base = up
    if draw(st.integers(0, 9)) < 3:
        # a middle engine between S and T, with operations and (locked) materializations in it
        M = ({0, 1, 2} - {S, T}).pop()
        base = ("xfer", base, M)
        for _ in range(draw(st.integers(0, 2))):
            if draw(st.integers(0, 9)) < max(p_mat, 3):
                node = ("mat", base, f"mm{counter}")
                counter += 1
            else:
                node = draw(st_unary_node(base, schema(base, leaves), universe, UNARY, cfg))
            if node is not None:
                base = node
    if draw(st.integers(0, 9)) < 2:
        # forked base: a chain in T whose branches were both transferred from upstream, each with its own
        # schema-preserving operations (a backtracked operation would have to be distributed over the branches)
        keep = ("sel", "sort", "dedup", "slice")
        branches = []
        for _b in range(2):
            br = ("xfer", base, T)
            for _ in range(draw(st.integers(0, 2))):
                node = draw(st_unary_node(br, schema(br, leaves), universe, keep, cfg))
                if node is not None:
                    br = node
            branches.append(br)
        base = ("chain", branches[0], branches[1])
    else:
        base = ("xfer", base, T)
    for _ in range(draw(st.integers(0, 4))):
        cols = schema(base, leaves)
        if draw(st.integers(0, 9)) < p_mat:
            node = ("mat", base, f"m{counter}")
            counter += 1
        elif T != 0 and draw(st.integers(0, 11)) == 0 and base[0] != "mark":
            # a user-defined marker relation (documented extension point) somewhere downstream of the transfer
            # (iteration engines only: the SQL engine's conform() drops markers it does not know)
            node = ("mark", base)
        else:
            node = draw(st_unary_node(base, cols, universe, UNARY, cfg))
        if node is not None:
            base = node
    cols = schema(base, leaves)
    final = None
    if S == 0 and draw(st.integers(0, 4)) == 0:
        # join with a fixed operand living in S
        cands = [i for i, l in enumerate(leaves) if l[3] == S and i not in leaf_indices(base)]
        if p8 or draw(st.booleans()):
            # P8: operands share only key columns (for shared non-key columns it is unspecified whose values win, so
            # checks that compare content need this; purely structural checks pass p8=False)
            cands = [i for i in cands if all(t.is_key for t in frozenset(leaves[i][1]) & cols)]
        if cands:
            i = draw(st.sampled_from(cands))
            extra = [t for t in leaves[i][1] if t not in cols]
            extra = [t for t in extra if not t.is_key] or extra
            if not p8 and extra and cols and draw(st.booleans()):
                # the tree calculates (downstream of the transfer) a column that the fixed operand also has
                from vf.core.tags import sorted_tags as _st

                base = ("calc", base, draw(st.sampled_from(extra)), ("neg", ("ref", draw(st.sampled_from(_st(cols))))))
                cols = schema(base, leaves)
            allc = cols | frozenset(leaves[i][1])
            pred = draw(st_pred(allc, 1)) if allc and draw(st.booleans()) else None
            final = ("join", None, ("leaf", i), pred, draw(st.booleans()))
    if final is None:
        node = draw(st_unary_node(base, cols, universe, UNARY, cfg))
        if node is None:
            node = ("dedup", base)
        final = (node[0], None) + tuple(node[2:])
    preprocess = draw(st.integers(0, 9)) < 2  # issue the final call on an already processed base tree
    return (universe, leaves, S, base, final, preprocess)


def strategy(tier):
    return st_case(tier)


def op_counts(rel):
    from lsst.daf.relation import BinaryOperationRelation, UnaryOperationRelation

    out = {}
    seen = set()
    for n in lib_nodes(rel):
        if id(n) in seen:
            continue
        seen.add(id(n))
        if isinstance(n, (UnaryOperationRelation, BinaryOperationRelation)):
            out[id(n.engine)] = out.get(id(n.engine), 0) + 1
    return out


def issue(final, root, fixed_rel, env, opts):
    from lsst.daf.relation import Join, Predicate

    from vf.core.expr import lib_p

    if final[0] == "join":
        pred = lib_p(final[3]) if final[3] is not None else None
        jopts = {k: v for k, v in opts.items() if k in ("backtrack", "transfer")}
        if final[4]:
            return Join(pred if pred is not None else Predicate.literal(True)).partial(fixed_rel, is_lhs=True).apply(root, **jopts)
        return root.join(fixed_rel, pred, **jopts)
    node = (final[0], ("leaf", 0)) + tuple(final[2:])
    return apply_node(node, [root], env, **opts)


def run_case(case, stats):
    from lsst.daf.relation import ColumnError, EngineError

    universe, leaves, S, base, final, *rest = case
    preprocess = bool(rest and rest[0])
    T = engine_of(base, leaves)
    third = ({0, 1, 2} - {S, T}).pop()
    if final[0] == "join":
        full = ("join", ("leaf", final[2][1]), base, final[3]) if final[4] else ("join", base, final[2], final[3])
    else:
        full = (final[0], base) + tuple(final[2:])
    memo = {}
    truth = ev_multi(full, leaves, memo=memo)  # OutOfDomain (P1) discards the case
    if final[0] == "dedup":
        # with backtracking the deduplication may execute at any point between the root and the transfer's source:
        # the documented key-column precondition (P1) has to hold wherever it may land
        from vf.core.prog import dedup_rows

        n = base
        while True:
            r = ev_multi(n, leaves, memo=memo)
            if r.det:
                dedup_rows(r.rows, True)
            if n[0] in ("leaf", "chain", "join"):
                break
            n = n[1]
    env = Env(leaves)
    try:
        rels = {}
        try:
            build_all(base, env, rels)
        except BuildError as b:
            if not (is_order_loss(b.exc) or isinstance(b.exc, (ColumnError, EngineError))):
                raise Violation("build-raised", f"{fmt(b.node, leaves)}: {type(b.exc).__name__}: {b.exc}", exc=b.exc)
            stats.c["build:refused"] += 1
            return
        root = rels[id(base)]
        if preprocess:
            # the same request on a tree that Processor.process already annotated with transfer payloads
            try:
                root = make_processor(env).process(root)
            except Exception:
                stats.c["preprocess:failed"] += 1
                return
            stats.c["preprocess:done"] += 1
        fixed_rel = env.leafrels[final[2][1]] if final[0] == "join" else None
        before = op_counts(root)
        ctx0 = f"base {fmt(base, leaves)} [{root}]; op {fmt(full, leaves)[-160:]}"
        # the plain call
        plain = None
        plain_exc = None
        if final[0] != "join":
            try:
                plain = issue(final, root, fixed_rel, env, {})
            except (ColumnError, EngineError) as e:
                plain_exc = e
            except Exception as e:
                if is_order_loss(e):
                    plain_exc = e
                else:
                    raise Violation("plain-call-raised", f"{type(e).__name__}: {e}; {ctx0}", sig=exc_sig(e))
        downstream_ops = 0
        n = base
        while n[0] != "xfer":
            downstream_ops += 1
            n = n[1]
        if final[0] == "join":
            combos = [dict(backtrack=b, transfer=t) for b in (False, True) for t in (False, True)]
            prefs = [S]
        else:
            combos = [dict(backtrack=b, transfer=t, require_preferred_engine=r) for b in (False, True) for t in (False, True) for r in (False, True)]
            prefs = [S, T, third]
        moved_any = False
        for pref, opts in itertools.product(prefs, combos):
            o = dict(opts)
            if final[0] != "join":
                o["preferred_engine"] = env.engines[pref]
            label = f"preferred=E{pref} " + " ".join(f"{k}={v}" for k, v in opts.items())
            ctx = f"{label}; {ctx0}"
            try:
                res = issue(final, root, fixed_rel, env, o)
            except ColumnError as e:
                if plain_exc is None:
                    raise Violation("valid-op-rejected-with-ColumnError", f"{e}; {ctx}", opts=label, final=final[0], sig=exc_sig(e))
                continue
            except EngineError as e:
                if final[0] == "join":
                    allowed = not opts["transfer"]
                else:
                    allowed = pref != T and opts["require_preferred_engine"] and not opts["transfer"]
                if not allowed and not isinstance(plain_exc, EngineError):
                    raise Violation("unexpected-EngineError", f"{e}; {ctx}", opts=label, final=final[0])
                stats.c["outcome:EngineError-allowed"] += 1
                continue
            except Exception as e:
                if is_order_loss(e):
                    stats.c["outcome:order-loss-refused"] += 1
                    continue
                raise Violation("call-raised", f"{type(e).__name__}: {str(e)[:300]}; {ctx}", sig=exc_sig(e), opts=label, final=final[0])
            if plain_exc is not None and final[0] != "join":
                # the plain call is rejected; an optioned call that succeeds is not covered by this property
                stats.c["outcome:plain-rejected-but-optioned-accepted"] += 1
                continue
            want_cols = set(schema(full, leaves))
            if set(res.columns) != want_cols:
                raise Violation("columns-differ", f"{set(res.columns)} != {want_cols}; result {res}; {ctx}", opts=label, final=final[0])
            after = op_counts(res)
            pref_engine = env.engines[pref]
            added_outside = [e for e in env.engines if e is not pref_engine and after.get(id(e), 0) > before.get(id(e), 0)]
            if opts.get("transfer") and res.engine is not pref_engine and added_outside:
                raise Violation("transfer-ignored", f"transfer=True but the result lives in {res.engine} and operations were added outside {pref_engine}; result {res}; {ctx}", opts=label, final=final[0])
            if opts.get("require_preferred_engine") and added_outside:
                raise Violation("operation-outside-required-engine", f"require_preferred_engine but engine(s) {[str(e) for e in added_outside]} gained operation nodes; result {res}; {ctx}", opts=label, final=final[0])
            moved = pref != T and not added_outside and res.engine is not pref_engine
            if moved:
                moved_any = True
                stats.c["outcome:moved-upstream"] += 1
            elif pref != T and after.get(id(pref_engine), 0) > before.get(id(pref_engine), 0) and res.engine is not pref_engine:
                stats.c["outcome:partially-moved"] += 1
                moved_any = True
            else:
                stats.c["outcome:not-moved"] += 1
            # content
            proc = make_processor(env)
            try:
                processed = proc.process(res)
                got = execute_processed(env, processed)
            except DatabaseError:
                stats.c["outcome:db-error"] += 1
                continue
            except Exception as e:
                raise Violation("result-not-executable", f"{type(e).__name__}: {str(e)[:300]}; result {res}; {ctx}", sig=exc_sig(e), opts=label, final=final[0], moved=moved)
            bad = compare(truth, got)
            if bad:
                raise Violation("rows-differ", f"{bad}; result {res}; {ctx}", opts=label, final=final[0], moved=moved)
            stats.c["compared"] += 1
        # histories: user code re-uses predicate objects.  After the join requests, the join's own predicate object is used
        # in a selection on the same tree (when the tree alone has the columns), with backtracking towards S: whatever the
        # joins did with the object, the selection must still mean the same thing.
        if final[0] == "join" and final[3] is not None and not preprocess:
            from vf.core.expr import cols_p

            if cols_p(final[3]) <= set(schema(base, leaves)):
                sel_node = ("sel", base, final[3])
                truth_s = ev_multi(sel_node, leaves)
                for o in (dict(preferred_engine=env.engines[S], backtrack=True, transfer=False), dict(preferred_engine=env.engines[S], backtrack=True, transfer=True)):
                    label = "selection re-using the join's predicate object, " + " ".join(f"{k}={v}" for k, v in o.items() if k != "preferred_engine")
                    try:
                        res = issue(("sel", None, final[3]), root, None, env, o)
                        got = execute_processed(env, make_processor(env).process(res))
                    except (ColumnError, DatabaseError) as e:
                        if isinstance(e, ColumnError):
                            raise Violation("valid-op-rejected-with-ColumnError", f"{e}; {label}; {ctx0}", opts=label, final="sel-after-join", sig=exc_sig(e))
                        continue
                    except EngineError:
                        continue
                    except Exception as e:
                        if is_order_loss(e):
                            continue
                        raise Violation("result-not-executable", f"{type(e).__name__}: {str(e)[:300]}; {label}; {ctx0}", sig=exc_sig(e), opts=label, final="sel-after-join")
                    bad = compare(truth_s, got)
                    if bad:
                        raise Violation("rows-differ", f"{bad}; result {res}; {label}; {ctx0}", opts=label, final="sel-after-join")
                    stats.c["sel-after-join:compared"] += 1
        # a user-defined operation (extension point: RowFilter subclass that keeps the base-class commute()) requested
        # with a preferred engine: it cannot be moved, so it must end up in the tree (or the call must raise EngineError)
        if not preprocess and T != 0:
            # (trees rooted in the SQL engine are left out: it has no translation for user-defined operations at all)
            flt = custom_filter()(2)
            for pref in (p for p in (S, third) if p != 0):
                for bits in range(8):
                    o = dict(preferred_engine=env.engines[pref], backtrack=bool(bits & 1), transfer=bool(bits & 2), require_preferred_engine=bool(bits & 4))
                    label = f"preferred=E{pref} " + " ".join(f"{k}={v}" for k, v in o.items() if k != "preferred_engine")
                    try:
                        res = flt.apply(root, **o)
                    except EngineError:
                        stats.c["custom-op:EngineError"] += 1
                        continue
                    except Exception as e:
                        raise Violation("call-raised", f"user-defined RowFilter: {type(e).__name__}: {str(e)[:300]}; {label}; {ctx0}", sig=exc_sig(e), opts=label, final="custom")
                    from vf.core.prog import lib_nodes as _ln

                    holders = [n for n in _ln(res) if getattr(n, "operation", None) == flt]
                    if not holders:
                        raise Violation(
                            "operation-dropped",
                            f"a user-defined RowFilter applied with {label} is nowhere in the returned tree {str(res)[:300]}; {ctx0}",
                            opts=label,
                            final="custom",
                        )
                    if o["require_preferred_engine"] and any(n.engine is not env.engines[pref] for n in holders):
                        raise Violation("operation-outside-required-engine", f"user-defined RowFilter with {label} sits in {holders[0].engine}; result {str(res)[:300]}; {ctx0}", opts=label, final="custom")
                    stats.c["custom-op:in-tree"] += 1
        # the same request on a *twin* tree: same engines, same leaf names and columns, other rows.  Relations compare
        # equal when they differ only in payloads, so anything memoised by equality would hand back the first tree.
        if not preprocess:
            from vf.core.prog import twin_leaves

            leaves2 = twin_leaves(leaves)
            truth2 = ev_multi(full, leaves2)
            tw = env.twin(leaves2)
            try:
                rels2 = {}
                try:
                    build_all(base, tw, rels2)
                    root2 = rels2[id(base)]
                    fixed2 = tw.leafrels[final[2][1]] if final[0] == "join" else None
                    o = dict(backtrack=True, transfer=False)
                    if final[0] != "join":
                        o.update(preferred_engine=env.engines[S], require_preferred_engine=False)
                    res2 = issue(final, root2, fixed2, tw, o)
                    got2 = execute_processed(tw, make_processor(tw).process(res2))
                except (ColumnError, EngineError, DatabaseError, BuildError):
                    got2 = None
                except Exception as e:
                    if is_order_loss(e):
                        got2 = None
                    else:
                        raise Violation("call-raised", f"twin tree: {type(e).__name__}: {str(e)[:200]}; {ctx0}", sig=exc_sig(e), opts="twin backtrack=True", final=final[0])
                if got2 is not None:
                    bad = compare(truth2, got2)
                    if bad:
                        raise Violation(
                            "rows-differ",
                            f"twin tree (same names, other rows, same engines): {bad}; {ctx0}",
                            opts="twin backtrack=True",
                            final=final[0],
                            twin=True,
                        )
                    stats.c["twin:compared"] += 1
            finally:
                tw.close_tables()
        if downstream_ops >= 1:
            cls = f"S=E{S}/{final[0]}/" + ("moved" if moved_any else "not-moved")
            stats.mark_nontrivial(codec.digest(case), lambda: describe(case), cls=cls)
    finally:
        env.close()


_CUSTOM_FILTER = None


def custom_filter():
    """RowFilter subclass "all rows if there are at least n" that does not override commute()."""
    global _CUSTOM_FILTER
    if _CUSTOM_FILTER is None:
        import dataclasses

        from lsst.daf.relation import RowFilter

        @dataclasses.dataclass(frozen=True)
        class AtLeastRows(RowFilter):
            n: int

            def __str__(self):
                return f"atleast[{self.n}]"

            @property
            def is_order_dependent(self):
                return False

            @property
            def is_count_dependent(self):
                return True

            @property
            def is_empty_invariant(self):
                return False

            def applied_max_rows(self, target):
                return target.max_rows

            def is_supported_by(self, engine):
                # (only the iteration engines of the harness could ever run it; the SQL engine has no translation)
                from lsst.daf.relation import iteration

                return isinstance(engine, iteration.Engine)

        _CUSTOM_FILTER = AtLeastRows
    return _CUSTOM_FILTER


EXHAUSTIVE_NOTE = (
    "grid: base = L0.to(T) followed by one (thorough: every two) downstream operation(s) of the 20 unary operations of the "
    "C04 grid; final operation = each of those 20 or a join (fixed operand as rhs / lhs, with / without predicate); "
    "(S, T) in {(SQL, iteration A), (iteration B, iteration A), (iteration B, SQL)}; 2 fixed targets; all option combinations"
)


def grid_cases(tier):
    """The finite grid shared by C03, C14 and C15 (see EXHAUSTIVE_NOTE)."""
    from vf.checks.c04 import grid, well_formed
    from vf.core.expr import cols_p
    from vf.core.matrix import A, B, C, D, UNIVERSE

    g = [op for op in grid() if op[0] != "pjoin"]
    joins = [op for op in grid() if op[0] == "pjoin"]
    targets = [
        ((2, 1, 0), (0, 2, 1), (1, 0, 2), (2, 0, 1), (0, 1, 2)),
        ((1, 1, 0), (0, 1, 1), (1, 1, 0), (0, 0, 1), (0, 1, 1)),
    ]
    depth = 1 if tier == "quick" else 2
    for S, T in ((0, 1), (2, 1), (2, 0)):
        for rows in targets:
            leaves = (
                ("L0", (A, B, C), rows, S, "data", (len(rows), len(rows)), "plain"),
                ("L1", (A, D), ((0, 7), (1, 8), (2, 9), (2, 6)), S, "data", (4, 4), "plain"),
            )
            for chain_ops in itertools.product(g, repeat=depth):
                base = ("xfer", ("leaf", 0), T)
                ok = True
                for op in chain_ops:
                    if well_formed(op, schema(base, leaves), frozenset()):
                        ok = False
                        break
                    base = (op[0], base) + tuple(op[1:])
                if not ok:
                    continue
                cols = schema(base, leaves)
                finals = [(op[0], None) + tuple(op[1:]) for op in g if not well_formed(op, cols, frozenset())]
                if S == 0:
                    # the fixed operand shares the key column a (and d when the base calculated it)
                    for j in joins:
                        if j[2] is None or cols_p(j[2]) <= (cols | {A, D}):
                            finals.append(("join", None, ("leaf", 1), j[2], j[1]))
                for final in finals:
                    yield (UNIVERSE, leaves, S, base, final)


def exhaustive(tier, stats, shard, nshards, run):
    for idx, case in enumerate(grid_cases(tier)):
        if idx % nshards != shard:
            continue
        try:
            run(case)
        except Violation as v:
            v.case = case
            raise
        stats.c["grid_cases"] += 1


def describe(case):
    universe, leaves, S, base, final, *rest = case
    d = describe_case(universe, leaves, base)
    d["source_engine"] = f"E{S}"
    d["final_operation"] = repr(final)[:300]
    d["issued_on_processed_tree"] = bool(rest and rest[0])
    return d


def attribute(case, v):
    """D12 (see C04): a projection inserted with backtracking is moved upstream of a deduplication."""
    universe, leaves, S, base, final, *rest = case
    if v.kind == "result-not-executable" and str(v.extra.get("sig", "")).startswith(("KeyError@_engine.py:convert_column_expression", "ColumnError@_sort.py")):
        from vf.core.known import TRIGGERS

        # (the shape may be completed by the final operation or - in trees rooted in the SQL engine - sit in the base)
        full = base if final[0] == "join" else (final[0], base) + tuple(final[2:])
        if TRIGGERS["D10"](full):
            return "D10"
    if final[0] == "proj" and "backtrack=True" in str(v.extra.get("opts", "")) and v.kind in ("result-not-executable", "call-raised", "valid-op-rejected-with-ColumnError"):
        from vf.core.known import trig_recalculated_hidden_tag

        if "ColumnError" in str(v.extra.get("sig", "")) and trig_recalculated_hidden_tag(base, leaves):
            return "D23"
    if v.kind == "rows-differ" and final[0] == "proj" and "backtrack=True" in str(v.extra.get("opts", "")):
        n = base
        while n[0] not in ("leaf", "chain", "join"):  # the whole spine: the projection may travel through several transfers
            if n[0] == "dedup":
                return "D12"
            n = n[1]
    return None
