"""C04 — commutation reports are sound for every operation pair and target."""
from __future__ import annotations

from hypothesis import strategies as st

from vf.core import codec
from vf.core.base import Violation
from vf.core.env import Env
from vf.core.expr import Undecodable, cols_e, cols_p, eval_e, eval_p, fmt_e, fmt_p, from_lib_p, lib_e, lib_p, st_expr, st_pred
from vf.core.gen import Cfg, st_leaf, st_slice, st_sort_terms, st_universe
from vf.core.prog import decode_op, dedup_rows, fmt_leaves, join_rows, leaf_rows, multiset, show_rows, sort_rows
from vf.core.tags import sorted_tags

ID = "C04"
LEVEL = "exploration"
TECHNIQUE = "property-based testing (Hypothesis): UnaryOperation.commute reports decoded and re-evaluated by an independent evaluator on generated targets; 7x7 operation-type matrix"
LEVEL_TEXT = (
    "Bounded exploration: ordered pairs (existing, new) over Calculation, Deduplication, Projection, Selection, Slice, "
    "Sort and resolved PartialJoin (fixed operand a data leaf or a join identity) with generated parameters over a 4-7 tag "
    "universe, on target leaves of <= 5 rows (duplicates included); the existing operation may also be a user-defined "
    "Reordering / RowFilter subclass (the two documented extension points: a stable sort, a value filter, an order- and "
    "count-dependent position filter, a count-dependent threshold filter), which commute() only knows by its flags; the "
    "fixed join operand may be a tree (deduplication then projection), and so may the target of the existing operation "
    "(a deduplication, selection, sort or slice over the leaf).  Every reported commutation is decoded and evaluated: first then second (then the original "
    "again if partial) must give the rows of existing-then-new in the same order, and both reported operations must be "
    "well-formed where they would be applied; a refusal must hand back the existing operation."
    "  User-defined operations (stable sort, even filter, position filter, count threshold, reverse, drop-repeats) "
    "occur as the existing and as the new operation."
)
LEVEL_NOTE = "trusts: decoding of operations via public dataclass fields; reference semantics of vf/core/prog.py; join results compared as multisets (join order is engine-defined)"
RULE = (
    "case = (universe, target leaf, fixed join operand leaf, existing op, new op).  current = existing.apply(leaf) must "
    "hold `existing` (else counted and skipped).  c = new.commute(current).  c.first is None => c.second == existing.  "
    "Otherwise rows(new(existing(T))) == rows([new](second(first(T)))) as lists (multisets when a join is involved) and "
    "first / second are well-formed (required columns present, calculated tag absent, projection within columns).  "
    "Non-trivial: a move was reported (c.first is not None); distinct by case digest; the type matrix with move / "
    "no-move counts is in coverage.classes."
)
ASSUMPTIONS = ["operands of the partial join share only key columns with the target (P8)"]

CFG = Cfg(engines=(1,), special_leaves=False, loose_bounds=False, max_cols=4, max_rows=5, iter_variants=("plain",))


def budget(tier):
    return 8000 if tier == "quick" else 200000


_CUSTOM = None


def custom_classes():
    """User-defined operations through the two documented extension points (Reordering, RowFilter), used as *existing*
    operations: built-in commute() implementations only know their flags and required columns.

    tsort t   Reordering: stable sort by descending value of column t (a user-defined sort)
    cfilt t   RowFilter: keeps rows whose value in column t is even (reads t; order independent)
    alt       RowFilter: keeps rows at even positions (order and count dependent, declared like Slice)
    atleast n RowFilter: keeps every row if there are at least n of them, else none (count dependent, order independent)
    rev       Reordering: reverses the rows (order dependent, not count dependent)
    rot       Reordering: moves the last row to the front (order dependent; unlike reverse not an order isomorphism:
              removing a row changes which row is moved)
    droprep t RowFilter: drops a row whose value in column t equals the previous row's (order dependent, not count dependent)"""
    global _CUSTOM
    if _CUSTOM is None:
        import dataclasses

        from lsst.daf.relation import ColumnTag, Reordering, RowFilter

        @dataclasses.dataclass(frozen=True)
        class TotalSort(Reordering):
            tag: ColumnTag

            def __str__(self):
                return f"tsort[{self.tag}]"

            @property
            def columns_required(self):
                return frozenset({self.tag})

        @dataclasses.dataclass(frozen=True)
        class EvenFilter(RowFilter):
            tag: ColumnTag

            def __str__(self):
                return f"even[{self.tag}]"

            @property
            def columns_required(self):
                return frozenset({self.tag})

            @property
            def is_order_dependent(self):
                return False

            @property
            def is_empty_invariant(self):
                return False

            def applied_max_rows(self, target):
                return target.max_rows

        @dataclasses.dataclass(frozen=True)
        class Alternate(RowFilter):
            def __str__(self):
                return "alternate"

            @property
            def is_order_dependent(self):
                return True

            @property
            def is_count_dependent(self):
                # like Slice: which rows survive depends on how many rows precede them
                return True

            @property
            def is_empty_invariant(self):
                return True

            def applied_max_rows(self, target):
                return target.max_rows

        @dataclasses.dataclass(frozen=True)
        class AtLeast(RowFilter):
            n: int

            def __str__(self):
                return f"atleast[{self.n}]"

            @property
            def is_order_dependent(self):
                return False

            @property
            def is_count_dependent(self):
                return True

            @property
            def is_empty_invariant(self):
                return False

            def applied_max_rows(self, target):
                return target.max_rows

        @dataclasses.dataclass(frozen=True)
        class Reverse(Reordering):
            def __str__(self):
                return "reverse"

            @property
            def is_order_dependent(self):
                return True

        @dataclasses.dataclass(frozen=True)
        class Rotate(Reordering):
            def __str__(self):
                return "rotate"

            @property
            def is_order_dependent(self):
                return True

        @dataclasses.dataclass(frozen=True)
        class DropRepeats(RowFilter):
            tag: ColumnTag

            def __str__(self):
                return f"droprepeats[{self.tag}]"

            @property
            def columns_required(self):
                return frozenset({self.tag})

            @property
            def is_order_dependent(self):
                return True

            @property
            def is_empty_invariant(self):
                return True

            def applied_max_rows(self, target):
                return target.max_rows

        _CUSTOM = (TotalSort, EvenFilter, Alternate, AtLeast, Reverse, DropRepeats, Rotate)
    return _CUSTOM


@st.composite
def st_op(draw, cols, universe, fixed_cols, kind=None, custom=False):
    cols = sorted_tags(cols)
    free = [t for t in universe if t not in cols]
    ks = ["sel", "slice", "dedup", "pjoin"]
    if custom and draw(st.integers(0, 5)) == 0:
        k = draw(st.sampled_from(["alt", "atleast", "rev", "rot"] + (["cfilt", "tsort", "droprep"] if cols else [])))
        if k == "atleast":
            return (k, draw(st.integers(1, 4)))
        return (k, draw(st.sampled_from(cols))) if k not in ("alt", "rev", "rot") else (k,)
    if cols:
        ks += ["sort", "proj", "proj"]
        if free:
            ks += ["calc", "calc"]
    k = kind or draw(st.sampled_from(ks))
    if k == "sel":
        return ("sel", draw(st_pred(cols, 1)))
    if k == "slice":
        return ("slice",) + draw(st_slice())
    if k == "dedup":
        return ("dedup",)
    if k == "sort":
        return ("sort", draw(st_sort_terms(cols)))
    if k == "proj":
        order = draw(st.permutations(cols))
        return ("proj", tuple(order[: draw(st.integers(0, len(order)))]))
    if k == "calc":
        return ("calc", draw(st.sampled_from(free)), draw(st_expr(cols, 1, need_ref=True)))
    allc = sorted_tags(set(cols) | set(fixed_cols))
    pred = draw(st_pred(allc, 1)) if allc and draw(st.integers(0, 2)) == 0 else None
    return ("pjoin", draw(st.booleans()), pred)


@st.composite
def st_case(draw):
    universe = draw(st_universe("allkey"))
    leaf = draw(st_leaf(CFG, universe, 0))
    fixed = draw(st_leaf(CFG, universe, 1))
    cols0 = frozenset(leaf[1])
    if draw(st.integers(0, 7)) == 0:
        # the fixed join operand is a join identity (no columns, exactly one row): joining to it with a predicate filters
        fixed = (fixed[0], (), ((),), fixed[3], "data", (1, 1), "plain")
    existing = draw(st_op(cols0, universe, fixed[1], custom=True))
    cols1 = cols_after(existing, cols0, frozenset(fixed[1]))
    # the new operation is drawn for the columns it will see, but may also name a tag the existing operation hid
    # (the new operation may be user-defined as well: it then runs whatever commute() its base class provides)
    new = draw(st_op(cols1, universe, fixed[1], custom=existing[0] not in ("tsort", "cfilt", "alt", "atleast", "rev", "rot", "droprep")))
    if new[0] == "pjoin" and fixed[1] and draw(st.integers(0, 2)) == 0:
        # the fixed operand is itself a tree: deduplication, then a projection (which may bring duplicates back)
        order = draw(st.permutations(sorted_tags(fixed[1])))
        keep = tuple(order[: draw(st.integers(0, len(order)))])
        if new[2] is None or cols_p(new[2]) <= (cols1 | frozenset(keep)):
            return (universe, (leaf, fixed), existing, new, ("dp", keep))
    if draw(st.integers(0, 3)) == 0:
        # the target of the existing operation is a tree, not a leaf
        pk = draw(st.sampled_from(["dedup", "dedup", "sel", "sort", "slice"]))
        if pk != "sort" or cols0:
            return (universe, (leaf, fixed), existing, new, None, draw(st_op(cols0, universe, fixed[1], kind=pk)))
    return (universe, (leaf, fixed), existing, new)


def strategy(tier):
    return st_case()


def cols_after(spec, cols, fixed_cols):
    k = spec[0]
    if k == "calc":
        return cols | {spec[1]}
    if k == "proj":
        return frozenset(spec[1])
    if k == "pjoin":
        return cols | fixed_cols
    return cols


def well_formed(spec, cols, fixed_cols):
    k = spec[0]
    if k == "calc":
        return None if (spec[1] not in cols and cols_e(spec[2]) <= cols) else f"calculation {spec[1]} on columns {set(cols)}"
    if k == "proj":
        return None if frozenset(spec[1]) <= cols else f"projection {spec[1]} on columns {set(cols)}"
    if k == "sel":
        return None if cols_p(spec[1]) <= cols else f"selection needs {set(cols_p(spec[1]) - cols)}"
    if k == "sort":
        need = frozenset().union(*[cols_e(e) for e, _ in spec[1]]) if spec[1] else frozenset()
        return None if need <= cols else f"sort needs {set(need - cols)}"
    if k in ("cfilt", "tsort", "droprep"):
        return None if spec[1] in cols else f"custom operation needs {spec[1]}"
    if k == "pjoin":
        need = (cols_p(spec[2]) if spec[2] is not None else frozenset()) - fixed_cols
        common = frozenset(spec[3]) if len(spec) > 3 else frozenset()
        return None if need <= cols and common <= cols else f"join needs {set((need | common) - cols)}"
    return None


def well_formed_columns(spec, fixed_cols):
    """Columns the operation must declare as required (None when that is not a purely syntactic notion)."""
    k = spec[0]
    if k == "calc":
        return set(cols_e(spec[2]))
    if k == "proj":
        return set(spec[1])
    if k == "sel":
        return set(cols_p(spec[1]))
    if k == "sort":
        return set().union(*[cols_e(e) for e, _ in spec[1]]) if spec[1] else set()
    if k in ("dedup", "slice", "alt", "atleast", "rev", "rot"):
        return set()
    if k in ("cfilt", "tsort", "droprep"):
        return {spec[1]}
    return None


def apply_spec(spec, rows, cols, fixed_rows, fixed_cols):
    k = spec[0]
    out_prev, prev = False, None
    if k == "ident":
        return rows
    if k == "calc":
        return [{**r, spec[1]: eval_e(spec[2], r)} for r in rows]
    if k == "proj":
        return [{t: r[t] for t in spec[1]} for r in rows]
    if k == "sel":
        return [r for r in rows if eval_p(spec[1], r)]
    if k == "dedup":
        return dedup_rows(rows, False)
    if k == "sort":
        return sort_rows(rows, spec[1])
    if k == "slice":
        return rows[spec[1] : spec[2]]
    if k == "tsort":
        return sorted(rows, key=lambda r: -r[spec[1]])
    if k == "cfilt":
        return [r for r in rows if r[spec[1]] % 2 == 0]
    if k == "alt":
        return rows[::2]
    if k == "rev":
        return rows[::-1]
    if k == "rot":
        return rows[-1:] + rows[:-1]
    if k == "droprep":
        out = []
        for r in rows:
            if not out_prev or prev[spec[1]] != r[spec[1]]:
                out.append(r)
            out_prev, prev = True, r
        return out
    if k == "atleast":
        return rows if len(rows) >= spec[1] else []
    if k == "pjoin":
        common = spec[3] if len(spec) > 3 else [t for t in sorted_tags(cols & fixed_cols) if t.is_key]
        if spec[1]:
            return join_rows(fixed_rows, rows, common, spec[2])
        return join_rows(rows, fixed_rows, common, spec[2])
    raise AssertionError(spec)


def to_lib(spec, fixed_rel):
    from lsst.daf.relation import Calculation, Deduplication, Join, Predicate, Projection, Selection, Slice, Sort, SortTerm

    k = spec[0]
    if k == "calc":
        return Calculation(spec[1], lib_e(spec[2]))
    if k == "proj":
        return Projection(frozenset(spec[1]))
    if k == "sel":
        return Selection(lib_p(spec[1]))
    if k == "dedup":
        return Deduplication()
    if k == "sort":
        return Sort(tuple(SortTerm(lib_e(e), asc) for e, asc in spec[1]))
    if k == "slice":
        return Slice(spec[1], spec[2])
    if k == "rev":
        return custom_classes()[4]()
    if k == "rot":
        return custom_classes()[6]()
    if k == "droprep":
        return custom_classes()[5](spec[1])
    if k in ("tsort", "cfilt", "alt"):
        TotalSort, EvenFilter, Alternate, AtLeast, Reverse, DropRepeats, Rotate = custom_classes()
        return TotalSort(spec[1]) if k == "tsort" else Alternate() if k == "alt" else EvenFilter(spec[1])
    if k == "atleast":
        return custom_classes()[3](spec[1])
    if k == "pjoin":
        pred = lib_p(spec[2]) if spec[2] is not None else Predicate.literal(True)
        return Join(pred).partial(fixed_rel, is_lhs=spec[1])
    raise AssertionError(spec)


def from_lib(op, fixed_rel):
    from lsst.daf.relation import Identity, PartialJoin

    if isinstance(op, Identity):
        return ("ident",)
    TotalSort, EvenFilter, Alternate, AtLeast, Reverse, DropRepeats, Rotate = custom_classes()
    if isinstance(op, Reverse):
        return ("rev",)
    if isinstance(op, Rotate):
        return ("rot",)
    if isinstance(op, DropRepeats):
        return ("droprep", op.tag)
    if isinstance(op, AtLeast):
        return ("atleast", op.n)
    if isinstance(op, TotalSort):
        return ("tsort", op.tag)
    if isinstance(op, Alternate):
        return ("alt",)
    if isinstance(op, EvenFilter):
        return ("cfilt", op.tag)
    if isinstance(op, PartialJoin):
        if op.fixed is not fixed_rel:
            raise Undecodable(f"partial join to an unknown relation {op.fixed}")
        p = from_lib_p(op.binary.predicate)
        common = tuple(sorted_tags(op.binary.common_columns)) if op.binary.max_columns == op.binary.min_columns else None
        spec = ("pjoin", bool(op.fixed_is_lhs), None if p == ("plit", True) else p)
        return spec + (common,) if common is not None else spec
    return decode_op(op)


def fmt_spec(s):
    k = s[0]
    if k == "calc":
        return f"calc({s[1]}={fmt_e(s[2])})"
    if k == "proj":
        return f"proj({','.join(str(t) for t in s[1])})"
    if k == "sel":
        return f"sel({fmt_p(s[1])})"
    if k == "sort":
        return "sort(" + ",".join(("" if a else "-") + fmt_e(e) for e, a in s[1]) + ")"
    if k == "slice":
        return f"slice[{s[1]}:{s[2]}]"
    if k == "cfilt":
        return f"custom-filter(even {s[1]})"
    if k == "tsort":
        return f"custom-reordering(stable sort by -{s[1]})"
    if k == "alt":
        return "custom-filter(rows at even positions)"
    if k == "rev":
        return "custom-reordering(reverse)"
    if k == "rot":
        return "custom-reordering(last row first)"
    if k == "droprep":
        return f"custom-filter(drop rows repeating the previous {s[1]})"
    if k == "atleast":
        return f"custom-filter(all rows if at least {s[1]})"
    if k == "pjoin":
        return f"join[fixed {'lhs' if s[1] else 'rhs'}{'' if s[2] is None else ', on=' + fmt_p(s[2])}{'' if len(s) < 4 else ', common=' + str(list(s[3]))}]"
    return k


def run_case(case, stats):
    from lsst.daf.relation import ColumnError, EngineError, UnaryOperationRelation

    universe, leaves, existing, new, *rest = case
    fshape = rest[0] if rest else None
    prefix = rest[1] if len(rest) > 1 else None
    env = Env(leaves)
    try:
        leaf, fixed = env.leafrels
        T = leaf_rows(leaves[0])
        F = leaf_rows(leaves[1])
        cols0, fcols = frozenset(leaves[0][1]), frozenset(leaves[1][1])
        if prefix is not None:
            # the target is itself a tree: one column-preserving operation over the leaf
            if well_formed(prefix, cols0, fcols):
                stats.c["skipped:prefix-invalid"] += 1
                return
            leaf = to_lib(prefix, fixed).apply(leaf)
            T = apply_spec(prefix, T, cols0, F, fcols)
            stats.c[f"target-is-a-tree:{prefix[0]}"] += 1
        if fshape is not None:
            fixed = fixed.without_duplicates().with_only_columns(set(fshape[1]))
            F = [{t: r[t] for t in fshape[1]} for r in dedup_rows(F, False)]
            fcols = frozenset(fshape[1])
            stats.c["fixed-operand:dedup-then-projection"] += 1
        if well_formed(existing, cols0, fcols):
            stats.c["skipped:existing-invalid"] += 1
            return
        cols1 = cols_after(existing, cols0, fcols)
        if existing[0] == "pjoin":
            stats.c["skipped:existing-is-join"] += 1  # a join leaves a binary relation; commute only sees unary ones
            return
        new_invalid = well_formed(new, cols1, fcols)
        if new_invalid:
            stats.c["skipped:new-invalid"] += 1
            return
        lex = to_lib(existing, fixed)
        try:
            current = lex.apply(leaf)
        except Exception as e:
            raise Violation("apply-raised", f"{type(e).__name__}: {e}; existing {fmt_spec(existing)}", exc=e)
        if not (isinstance(current, UnaryOperationRelation) and current.operation == lex and current.target is leaf):
            stats.c["skipped:existing-simplified"] += 1
            return
        lnew = to_lib(new, fixed)
        if new[0] == "pjoin":
            # resolve the common columns against the relation the join is being applied to, as apply() does
            try:
                lnew, _ = lnew._begin_apply(current, None)
            except (ColumnError, EngineError):
                stats.c["skipped:new-invalid"] += 1
                return
            new = from_lib(lnew, fixed)
        pair = f"{existing[0]}>{new[0]}"
        ctx = (
            f"existing {fmt_spec(existing)}; new {fmt_spec(new)}; target {fmt_leaves(leaves[:1])}"
            + (f" after {fmt_spec(prefix)}" if prefix else "")
            + f"; fixed {fmt_leaves(leaves[1:])}"
            + (f" deduplicated then projected onto {list(fshape[1])}" if fshape else "")
        )
        try:
            c = lnew.commute(current)
        except Exception as e:
            raise Violation("commute-raised", f"{type(e).__name__}: {e}; {ctx}", exc=e, pair=pair)
        # asking again must give the same report, and asking must not change what the operation declares to need
        try:
            c2 = lnew.commute(current)

            def dec_(op):
                try:
                    return None if op is None else from_lib(op, fixed)
                except Undecodable:
                    return repr(op)

            same = (dec_(c2.first) == dec_(c.first)) and (dec_(c2.second) == dec_(c.second)) and (c2.done == c.done)
        except Exception as e:
            raise Violation("commute-raised", f"second call: {type(e).__name__}: {e}; {ctx}", exc=e, pair=pair)
        if not same:
            raise Violation(
                "commute-not-repeatable",
                f"two identical commute() calls report differently: first={c.first} second={c.second} done={c.done} vs first={c2.first} second={c2.second} done={c2.done}; {ctx}",
                pair=pair,
            )
        want = well_formed_columns(new, fcols)
        if want is not None and set(lnew.columns_required) != want:
            raise Violation(
                "operation-columns-changed",
                f"after commute() the new operation declares columns_required={set(lnew.columns_required)}, it reads {want}; {ctx}",
                pair=pair,
            )
        if c.first is None:
            stats.c[f"matrix:{pair}:no-move"] += 1
            if not (c.second is current.operation or c.second == current.operation):
                raise Violation("refusal-changes-operation", f"no move reported but second={c.second} is not the existing operation; {ctx}", pair=pair)
            return
        stats.c[f"matrix:{pair}:{'moved' if c.done else 'partial'}"] += 1
        try:
            first, second = from_lib(c.first, fixed), from_lib(c.second, fixed)
        except Undecodable as e:
            raise Violation("undecodable", f"{e}; {ctx}", pair=pair)
        report = f"first={fmt_spec(first)} second={fmt_spec(second)} done={c.done}"
        bad = well_formed(first, cols0, fcols)
        if bad:
            raise Violation("first-illformed", f"reported first operation is not applicable to the upstream target: {bad}; {report}; {ctx}", pair=pair)
        colsA = cols_after(first, cols0, fcols)
        bad = well_formed(second, colsA, fcols)
        if bad:
            raise Violation("second-illformed", f"reported second operation is not applicable after first: {bad}; {report}; {ctx}", pair=pair)
        colsB = cols_after(second, colsA, fcols)
        expected = apply_spec(new, apply_spec(existing, T, cols0, F, fcols), cols1, F, fcols)
        got = apply_spec(second, apply_spec(first, T, cols0, F, fcols), colsA, F, fcols)
        if not c.done:
            bad = well_formed(new, colsB, fcols)
            if bad:
                raise Violation("partial-illformed", f"original operation not applicable after the partial move: {bad}; {report}; {ctx}", pair=pair)
            got = apply_spec(new, got, colsB, F, fcols)
        join_involved = "pjoin" in (existing[0], new[0])
        same = multiset(got) == multiset(expected) if join_involved else got == expected
        if not same:
            kind = "content" if multiset(got) != multiset(expected) else "order"
            raise Violation(
                "commutation-changes-rows",
                f"{kind}: existing-then-new gives {show_rows(expected)}, commuted sequence gives {show_rows(got)}; {report}; {ctx}",
                pair=pair,
                diff=kind,
            )
        stats.mark_nontrivial(codec.digest(case), lambda: describe(case), cls=pair)
    finally:
        env.close()


EXHAUSTIVE_NOTE = "all ordered pairs over a grid of 24 parameterised operations (vf/checks/c04.py:grid), plus 7 user-defined existing operations (Reordering / RowFilter subclasses) and predicate joins to a join identity, on 3 fixed targets"


def grid():
    from vf.core.matrix import A, B, C, D, R

    return [
        ("calc", D, ("add", R(A), R(B))),
        ("calc", C, ("ref", A)),  # re-uses a tag the target already has / a projection may hide
        ("calc", D, ("neg", R(C))),
        ("proj", (A,)),
        ("proj", (B, A)),
        ("proj", ()),
        ("proj", (A, B, C)),
        ("proj", (A, B, D)),
        ("sel", ("ge", R(A), ("lit", 1))),
        ("sel", ("eq", R(B), R(C))),
        ("sel", ("plit", False)),
        ("sel", ("gt", R(D), ("lit", 1))),
        ("dedup",),
        ("sort", ((R(A), True),)),
        ("sort", ((R(B), False), (R(A), True))),
        ("sort", ((R(D), False),)),
        ("slice", 0, 2),
        ("slice", 1, None),
        ("slice", 1, 3),
        ("slice", 2, 2),
        ("pjoin", False, None),
        ("pjoin", True, None),
        ("pjoin", False, ("lt", R(A), R(D))),
        ("pjoin", True, ("ne", R(A), ("lit", 0))),
    ]


def exhaustive(tier, stats, shard, nshards, run):
    from vf.core.matrix import A, B, C, D, UNIVERSE

    targets = [
        ((2, 1, 0), (0, 2, 1), (1, 0, 2), (2, 0, 1), (0, 1, 2)),
        ((1, 1, 0), (0, 1, 1), (1, 1, 0), (0, 0, 1), (0, 1, 1)),
        ((1, 2, 2),),
    ]
    fixed = ("L1", (A, D), ((0, 7), (1, 8), (2, 9), (2, 6)), 1, "data", (4, 4), "plain")
    g = grid()
    customs = [("tsort", A), ("tsort", C), ("alt",), ("cfilt", A), ("cfilt", C), ("atleast", 3), ("atleast", 5), ("rev",), ("rot",), ("droprep", A), ("droprep", B)]
    identity = ("L1", (), ((),), 1, "data", (1, 1), "plain")
    idjoins = [("pjoin", False, ("ge", ("ref", A), ("lit", 1))), ("pjoin", True, ("eq", ("ref", B), ("ref", C))), ("pjoin", False, None)]
    idx = 0
    for rows in targets:
        leaf = ("L0", (A, B, C), rows, 1, "data", (len(rows), len(rows)), "plain")
        pairs = [(fixed, existing, new) for existing in g + customs for new in g]
        pairs += [(fixed, existing, new) for existing in g for new in customs if not well_formed(new, cols_after(existing, frozenset((A, B, C)), frozenset((A, D))), frozenset((A, D)))]
        pairs += [(identity, existing, new) for existing in g + customs for new in idjoins]
        pairs += [(fixed, existing, new, ("dp", (A,))) for existing in g + customs for new in g if new[0] == "pjoin" and new[2] is None]
        pairs += [(fixed, existing, new, None, ("dedup",)) for existing in g for new in g if existing[0] in ("proj", "calc", "sel", "sort") or new[0] == "dedup"]
        for fx, existing, new, *shape in pairs:
            idx += 1
            if idx % nshards != shard:
                continue
            case = (UNIVERSE, (leaf, fx), existing, new) + tuple(shape)
            try:
                run(case)
            except Violation as v:
                v.case = case
                raise
            stats.c["grid_pairs"] += 1


def describe(case):
    universe, leaves, existing, new, *rest = case
    d = {"target": fmt_leaves(leaves[:1]), "fixed_join_operand": fmt_leaves(leaves[1:]), "existing": fmt_spec(existing), "new": fmt_spec(new)}
    if rest and rest[0]:
        d["fixed_join_operand_shape"] = f"deduplicated, then projected onto {[str(t) for t in rest[0][1]]}"
    if len(rest) > 1 and rest[1]:
        d["target_is"] = f"{fmt_spec(rest[1])} over the leaf"
    return d


def attribute(case, v):
    """D12: Projection.commute reports a full move past a Deduplication (pinned by
    tests/test_projection.py::test_backtracking_apply, so it cannot be repaired without editing the tests)."""
    universe, leaves, existing, new, *rest = case
    if v.kind == "commutation-changes-rows" and existing[0] == "dedup" and new[0] == "proj" and v.extra.get("diff") == "content":
        return "D12"
    return None
