"""C14 — every reachable tree is engine-consistent and structurally well-formed."""
from __future__ import annotations

import itertools

from hypothesis import strategies as st

from vf.core import codec
from vf.core.base import Violation
from vf.core.env import DatabaseError, Env
from vf.core.gen import Cfg, st_program
from vf.core.proc import make_processor
from vf.core.prog import BuildError, build_all, describe_case, fmt, kinds, lib_nodes, schema, walk
from vf.core.wellformed import check_tree
from vf.checks import c03
from vf.checks.c02 import is_order_loss
from vf.runner import exc_sig

ID = "C14"
LEVEL = "exploration"
TECHNIQUE = "property-based testing (Hypothesis): structural invariant walk over every relation produced by factory calls (all preferred-engine options), by Processor.process, and by the documented no-op calls"
LEVEL_TEXT = (
    "Bounded exploration: multi-engine programs (SQL + two iteration engines, transfers, materializations, joins, "
    "chains, engine-restricted column functions) and base-tree + final-operation cases issued with every option "
    "combination; every relation returned by any call - and every processed tree - is walked node by node for the "
    "invariants the statement lists; the three documented no-op calls must return the identical object (also on the "
    "result of every optioned request); cross-engine join / chain requests between the relations of a program and joins to "
    "the join identity of another engine (every route, incl. the low-level partial join) must raise or return a well-formed tree."
    "  The documented no-ops are also issued on trees returned by Processor.process and - in a third of the cases, "
    "where the engines are handle classes with value equality - as a transfer to an equal but not identical engine "
    "object; join operands may share columns beyond the join keys (generated and an exhaustive family); trees may be "
    "rooted in the SQL engine over an iteration-engine source."
)
LEVEL_NOTE = "trusts: the walker vf/core/wellformed.py reads public dataclass fields; engine restrictions are read from the decoded AST, not from is_supported_by alone"
RULE = (
    "case = multi-engine program, or (base tree, final operation) with all option combinations.  Oracle: for every node "
    "of every produced tree: unary/marker nodes live in their target's engine, binary operands share an engine, transfers "
    "change engine, select.skip_to.engine is select.engine, joins carry resolved common columns that are key columns of "
    "both operands, no Identity / PartialJoin / IgnoreOne node, required columns present, calculated tag fresh, "
    "projection within columns, every expression supported by the node's engine; with_only_columns(all), sorted([]), "
    "transferred_to(own engine) return the relation itself; failing calls raise EngineError / ColumnError (or the "
    "row-order-loss error).  Non-trivial: tree with >= 2 engines or an engine-restricted function; distinct by digest."
)
ASSUMPTIONS = ["P4, P8 for generated joins"]


def cfg(tier):
    return Cfg(
        engines=(0, 1, 2),
        binary=("chain", "join"),
        markers=("mat", "xfer", "xfer", "xfer"),
        max_ops=8 if tier == "quick" else 12,
        p_binary=0.2,
        avoid=frozenset(["D9", "D10", "D11"]),
        p_restricted=10,
    )


def budget(tier):
    return 5000 if tier == "quick" else 80000


def strategy(tier):
    from vf.checks.c07 import st_roundtrip_over_pruned_chain

    return st.one_of(
        st.tuples(st.just("prog"), st_program(cfg(tier))),
        st.tuples(st.just("prog"), st_program(cfg(tier))),
        st.tuples(st.just("opt"), c03.st_case(tier, p_restricted=12)),
        # join operands may share non-key columns here (which values win is unspecified, the tree must still be well-formed)
        st.tuples(st.just("opt"), c03.st_case(tier, p_restricted=12, p8=False)),
        # transfer, chain with a doomed leaf there, transfer back: the Processor prunes the chain and leaves a tree that
        # the factories themselves never build (engine A over engine B over engine A, transfers carrying payloads)
        st.tuples(st.just("prog"), st_roundtrip_over_pruned_chain(tier, cfg)),
    )


def walk_or_raise(rel, what, node=None):
    bad = check_tree(rel)
    if bad:
        raise Violation("ill-formed-tree", f"[{bad[0]}] {bad[1]}; produced by {what}", code=bad[0], node=node)


def check_noops(rel, what, env=None, pick=0):
    from lsst.daf.relation import ColumnError, EngineError

    calls = [
        ("with_only_columns(all columns)", lambda: rel.with_only_columns(set(rel.columns))),
        ("sorted([])", lambda: rel.sorted([])),
        ("transferred_to(own engine)", lambda: rel.transferred_to(rel.engine)),
    ]
    if hasattr(rel.engine, "handle"):
        # a second handle on the same backend: an engine that is equal to the relation's, but another object
        calls.append(("transferred_to(an equal, but not identical, engine object)", lambda: rel.transferred_to(rel.engine.handle())))
    if env is not None:
        # the same no-op requests with preferred-engine options: there is nothing to insert anywhere
        pe = env.engines[pick % 3]
        for bits in (pick % 8, (pick // 8) % 8):
            o = dict(preferred_engine=pe, backtrack=bool(bits & 1), transfer=bool(bits & 2), require_preferred_engine=bool(bits & 4))
            label = f"preferred={pe} " + " ".join(f"{k}={v}" for k, v in o.items() if k != "preferred_engine")
            calls.append((f"with_only_columns(all columns, {label})", lambda o=o: rel.with_only_columns(set(rel.columns), **o)))
            calls.append((f"sorted([], {label})", lambda o=o: rel.sorted([], **o)))
    for name, call in calls:
        try:
            out = call()
        except Exception as e:
            raise Violation("noop-raised", f"{name} raised {type(e).__name__}: {e}; relation {str(rel)[:200]} from {what}", noop=name)
        if out is not rel:
            raise Violation("noop-not-identity", f"{name} returned a different object ({str(out)[:160]}) for {str(rel)[:160]} from {what}", noop=name)


def cross_engine_requests(prog, rels, leaves, stats, env_engines=()):
    """Binary requests whose operands live in different engines: they must raise EngineError / ColumnError (or the
    row-order-loss error), or - when backtracking or a transfer can reconcile them - return a well-formed tree."""
    built = [(n, rels[id(n)]) for n in walk(prog) if id(n) in rels]
    # joins to the join identity of *another* engine: documented to be elided - whatever comes back must be well-formed
    if built:
        nb, b = built[-1]
        for e in env_engines:
            if e is b.engine:
                continue
            ident = e.make_join_identity_relation()
            from lsst.daf.relation import Join as _Join

            moved = ident.transferred_to(b.engine)
            for name, call in (
                ("Join().partial(relation).apply(identity.transferred_to(relation's engine), preferred_engine=identity's engine)", lambda: _Join().partial(b).apply(moved, preferred_engine=e)),
                ("Join().partial(relation, is_lhs=True).apply(identity.transferred_to(relation's engine), preferred_engine=identity's engine, transfer=True)", lambda: _Join().partial(b, is_lhs=True).apply(moved, preferred_engine=e, transfer=True)),
                ("identity.join(relation)", lambda: ident.join(b)),
                ("relation.join(identity)", lambda: b.join(ident)),
                ("identity.join(relation, backtrack=False)", lambda: ident.join(b, backtrack=False)),
                ("relation.join(identity, transfer=True)", lambda: b.join(ident, transfer=True)),
            ):
                what = f"{name} with the join identity of {e} and {fmt(nb, leaves)} [{b.engine}]"
                try:
                    out = call()
                except Exception as ex:
                    if acceptable(ex):
                        stats.c["cross-engine:identity-refused"] += 1
                        continue
                    raise Violation("call-raised", f"{what}: {type(ex).__name__}: {str(ex)[:200]}", sig=exc_sig(ex))
                walk_or_raise(out, what, None)
                stats.c["cross-engine:identity-well-formed"] += 1
    tried = 0
    for i, (na, a) in enumerate(built):
        for nb, b in built[i + 1 :]:
            if a.engine is b.engine or tried >= 4:
                continue
            if a.is_join_identity or b.is_join_identity:
                continue
            shared = set(a.columns) & set(b.columns)
            if any(not t.is_key for t in shared):
                continue
            tried += 1
            requests = [("join", lambda: a.join(b, backtrack=False, transfer=False)), ("join(default options)", lambda: a.join(b))]
            if set(a.columns) == set(b.columns):
                requests.append(("chain", lambda: a.chain(b)))
            for name, call in requests:
                what = f"{name} of {fmt(na, leaves)} [{a.engine}] with {fmt(nb, leaves)} [{b.engine}]"
                try:
                    out = call()
                except Exception as e:
                    if acceptable(e):
                        stats.c["cross-engine:refused"] += 1
                        continue
                    raise Violation("call-raised", f"{what}: {type(e).__name__}: {str(e)[:200]}", sig=exc_sig(e))
                walk_or_raise(out, what, None)
                stats.c["cross-engine:accepted-well-formed"] += 1


def acceptable(e):
    from lsst.daf.relation import ColumnError, EngineError

    return isinstance(e, (ColumnError, EngineError)) or is_order_loss(e)


def restricted_in(prog):
    from vf.core.expr import restrictions_e

    for n in walk(prog):
        if n[0] == "calc" and restrictions_e(n[3]):
            return True
        if n[0] == "sort" and any(restrictions_e(e) for e, _ in n[2]):
            return True
    return False


def run_case(case, stats):
    kind, body = case
    if kind == "prog":
        universe, leaves, prog = body
        if int(codec.digest(case)[:2], 16) % 3 == 0:
            # engines with value equality (two handles on one backend are equal, not identical)
            from vf.core.env import handle_engine_classes

            hs, hi = handle_engine_classes()
            env = Env(leaves, sql_engine_cls=hs, iter_engine_cls=hi)
        else:
            env = Env(leaves)
        try:
            rels = {}
            try:
                build_all(prog, env, rels)
            except BuildError as b:
                if not acceptable(b.exc):
                    raise Violation("call-raised", f"{fmt(b.node, leaves)}: {type(b.exc).__name__}: {b.exc}", sig=exc_sig(b.exc))
                stats.c["call:refused-" + type(b.exc).__name__] += 1
            for node in walk(prog):
                rel = rels.get(id(node))
                if rel is None:
                    continue
                walk_or_raise(rel, f"factory calls of {fmt(node, leaves)}", node)
                check_noops(rel, fmt(node, leaves), env, pick=sum(map(ord, fmt(node, leaves))) % 997)
                stats.c["trees_walked"] += 1
            cross_engine_requests(prog, rels, leaves, stats, env.engines)
            if id(prog) in rels:
                proc = make_processor(env)
                try:
                    processed = proc.process(rels[id(prog)])
                except Exception:
                    processed = None  # faithfulness of process() is C07's subject
                if processed is not None:
                    walk_or_raise(processed, f"Processor.process of {fmt(prog, leaves)}", prog)
                    check_noops(processed, f"Processor.process of {fmt(prog, leaves)}")
                    stats.c["processed_trees_walked"] += 1
            engines = {l[3] for l in leaves} | {n[2] for n in walk(prog) if n[0] == "xfer"}
            if len(engines) >= 2 or restricted_in(prog):
                cls = f"prog/engines={len(engines)}" + ("/restricted-fn" if restricted_in(prog) else "")
                stats.mark_nontrivial(codec.digest(case), lambda: describe(case), cls=cls)
        finally:
            env.close()
        return
    universe, leaves, S, base, final, *rest = body
    from vf.core.prog import engine_of as _engine_of

    T = _engine_of(base, leaves)
    third = ({0, 1, 2} - {S, T}).pop()
    env = Env(leaves)
    try:
        rels = {}
        try:
            build_all(base, env, rels)
        except BuildError as b:
            if not acceptable(b.exc):
                raise Violation("call-raised", f"{fmt(b.node, leaves)}: {type(b.exc).__name__}: {b.exc}", sig=exc_sig(b.exc))
            return
        root = rels[id(base)]
        walk_or_raise(root, f"factory calls of {fmt(base, leaves)}", base)
        fixed_rel = env.leafrels[final[2][1]] if final[0] == "join" else None
        if final[0] == "join":
            combos = [dict(backtrack=b, transfer=t) for b in (False, True) for t in (False, True)]
            prefs = [S]
        else:
            combos = [dict(backtrack=b, transfer=t, require_preferred_engine=r) for b in (False, True) for t in (False, True) for r in (False, True)]
            prefs = [S, T, third]
        full = (final[0], base) + tuple(final[2:]) if final[0] != "join" else ("join", base, final[2], final[3])
        for pref, opts in itertools.product(prefs, combos):
            o = dict(opts)
            if final[0] != "join":
                o["preferred_engine"] = env.engines[pref]
            label = f"preferred=E{pref} " + " ".join(f"{k}={v}" for k, v in opts.items())
            try:
                res = c03.issue(final, root, fixed_rel, env, o)
            except Exception as e:
                if acceptable(e):
                    stats.c["call:refused-" + type(e).__name__] += 1
                    continue
                raise Violation("call-raised", f"{type(e).__name__}: {str(e)[:200]}; {label}; base {fmt(base, leaves)}; op {final[0]}", sig=exc_sig(e), opts=label)
            walk_or_raise(res, f"{final[0]} with {label} on {fmt(base, leaves)} [{root}]", full)
            check_noops(res, f"{final[0]} with {label} on {fmt(base, leaves)}")
            stats.c["trees_walked"] += 1
        cls = f"opt/S=E{S}/{final[0]}" + ("/restricted-fn" if restricted_in(full) else "")
        stats.mark_nontrivial(codec.digest(case), lambda: describe(case), cls=cls)
    finally:
        env.close()


EXHAUSTIVE_NOTE = "the base x final-operation grid of C03 (vf/checks/c03.py:grid_cases), every option combination"


def shared_column_join_cases():
    """Joins whose operands share a column beyond the join keys - which values win is unspecified, but the tree must be
    well-formed: the tree calculates, downstream of the transfer, a (non-key or key) column the fixed operand also has."""
    from vf.core.matrix import A, B, C, D
    from vf.core.tags import VTag

    N = VTag("n", False, 5)
    universe = (A, B, C, D, N)
    rows = ((2, 1), (0, 2), (1, 0))
    for S in (0, 2):
        for clash in (N, D):
            leaves = (
                ("L0", (A, B), rows, S, "data", (3, 3), "plain"),
                ("L1", (A, clash), ((0, 7), (1, 8), (2, 9)), S, "data", (3, 3), "plain"),
            )
            x = ("xfer", ("leaf", 0), 1)
            calc = ("calc", x, clash, ("neg", ("ref", A)))
            bases = [
                calc,
                ("sel", calc, ("ge", ("ref", A), ("lit", 1))),
                ("calc", ("sel", x, ("ge", ("ref", A), ("lit", 1))), clash, ("neg", ("ref", B))),
                ("sort", calc, ((("ref", B), True),)),
                ("calc", ("proj", x, (A,)), clash, ("ref", A)),
            ]
            for base in bases:
                for is_lhs in (False, True):
                    for pred in (None, ("ge", ("ref", A), ("lit", 0))):
                        yield (universe, leaves, S, base, ("join", None, ("leaf", 1), pred, is_lhs))


def exhaustive(tier, stats, shard, nshards, run):
    for idx, body in enumerate(shared_column_join_cases()):
        if idx % nshards != shard:
            continue
        case = ("opt", body)
        try:
            run(case)
        except Violation as v:
            v.case = case
            raise
        stats.c["shared_column_join_cases"] += 1
    for idx, case in enumerate(c03.grid_cases(tier)):
        if idx % nshards != shard:
            continue
        case = ("opt", case)
        try:
            run(case)
        except Violation as v:
            v.case = case
            raise
        stats.c["grid_cases"] += 1


def describe(case):
    kind, body = case
    if kind == "prog":
        return describe_case(*body, kind="program")
    d = c03.describe(body)
    d["kind"] = "base + final operation, all option combinations"
    return d


def attribute(case, v):
    """The structural face of two known findings (see vf/core/known.py): D10 leaves a sort whose column a projection
    dropped, D23 a calculation whose tag leaked back from upstream."""
    from vf.core.known import TRIGGERS, trig_recalculated_hidden_tag

    node = v.extra.get("node")
    if v.kind != "ill-formed-tree" or node is None:
        return None
    leaves = case[1][1]
    if v.extra.get("code") == "missing-columns" and TRIGGERS["D10"](node):
        return "D10"
    if v.extra.get("code") == "duplicate-tag" and case[0] == "opt" and trig_recalculated_hidden_tag(node, leaves):
        return "D23"
    return None
