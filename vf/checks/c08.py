"""C08 — every tree the factories accept can be compiled and executed."""
from __future__ import annotations

from vf.core import codec
from vf.core.base import Violation
from vf.core.env import DatabaseError, Env
from vf.core.gen import Cfg, st_program
from vf.core.prog import BuildError, build_all, describe_case, fmt, kinds, n_ops, walk
from vf.core.sqlh import CompileError, compile_and_run, select_levels, sql_text
from vf.runner import exc_sig

ID = "C08"
LEVEL = "exploration"
TECHNIQUE = "property-based testing (Hypothesis): phase-classified execution of every accepted tree on SQLite and in the iteration engine"
LEVEL_TEXT = (
    "Bounded exploration: generated programs (<= 8 / 14 operations, <= 3 / 4 leaves, joins and chains of arbitrarily built "
    "operands) are built through the factories; whenever construction is accepted, the relation and each of its prefix "
    "relations must compile and execute (SQLite, both scan orders; or the iteration engine) without any exception."
)
LEVEL_NOTE = (
    "trusts: SQLite 3.40 stands for 'a database'; iteration-engine joins are outside the domain (documented as unsupported, "
    "deliberate EngineError at execute); P4 (no self-join of one leaf object)"
)
RULE = (
    "case = tag universe + leaves + program (SQL engine: all operations incl. join/chain nesting; iteration engines: all "
    "but join, with transfers between two iteration engines and materializations).  Oracle: ColumnError, EngineError or "
    "the row-order-loss RelationalAlgebraError from a *factory call* are acceptable outcomes; any exception from "
    "to_executable, from the database, from execute() or from iterating the result is a violation.  Non-trivial: the "
    "accepted tree has a binary operation or >= 2 SELECT levels; distinct by case digest."
)
ASSUMPTIONS = ["P4", "iteration-engine joins excluded (documented limitation)"]


AVOID = frozenset(["D9", "D10", "D11"])


def cfg(tier, engine):
    deep = tier != "quick"
    if engine == "sql":
        return Cfg(
            engines=(0,), max_ops=14 if deep else 8, max_leaves=4 if deep else 3, p_binary=0.3, markers=("mat",), avoid=AVOID, prelude=0.4
        )
    return Cfg(engines=(1, 2), binary=("chain",), markers=("mat", "xfer"), max_ops=14 if deep else 8, p_binary=0.15)


def budget(tier):
    return 6000 if tier == "quick" else 200000


def strategy(tier):
    from hypothesis import strategies as st

    return st.one_of(
        st.tuples(st.just("sql"), st_program(cfg(tier, "sql"))),
        st.tuples(st.just("sql"), st_program(cfg(tier, "sql"))),
        st.tuples(st.just("sql"), st_program(cfg(tier, "sql"))),
        st.tuples(st.just("iter"), st_program(cfg(tier, "iter"))),
    )


def acceptable_build_error(exc):
    from lsst.daf.relation import ColumnError, EngineError, RelationalAlgebraError

    if isinstance(exc, (ColumnError, EngineError)):
        return True
    return isinstance(exc, RelationalAlgebraError) and "row order" in str(exc)


def has_materialization(rel):
    from lsst.daf.relation import Materialization

    from vf.core.prog import lib_nodes

    return any(isinstance(r, Materialization) and r.payload is None for r in lib_nodes(rel))


def run_case(case, stats):
    which, (universe, leaves, prog) = case
    env = Env(leaves)
    try:
        rels = {}
        try:
            build_all(prog, env, rels)
        except BuildError as b:
            if acceptable_build_error(b.exc):
                stats.c[f"build-refused:{type(b.exc).__name__}"] += 1
            else:
                raise Violation(
                    "build-raised",
                    f"factory call for {fmt(b.node, leaves)} raised {type(b.exc).__name__}: {b.exc}",
                    sig=exc_sig(b.exc),
                    phase="build",
                )
        built = [n for n in walk(prog) if id(n) in rels and n[0] != "leaf"]
        for node in reversed(built):
            rel = rels[id(node)]
            ctx = f"program {fmt(node, leaves)}; tree {rel}"
            if which == "iter":
                try:
                    env.run_iter(rel)
                except Exception as e:
                    raise Violation("execute-raised", f"{type(e).__name__}: {e}; {ctx}", sig=exc_sig(e), phase="execute")
                continue
            if has_materialization(rel):
                # un-processed materializations need a Processor (documented EngineError); covered by C07
                stats.c["skipped:needs-processor"] += 1
                continue
            try:
                compile_and_run(env, rel)
            except CompileError as e:
                raise Violation(
                    "compile-raised", f"{type(e.exc).__name__}: {e.exc}; {ctx}", sig=exc_sig(e.exc), phase="compile", msg=str(e.exc), node=node
                )
            except DatabaseError as e:
                raise Violation(
                    "database-rejected",
                    f"{str(e)[:300]}; {ctx}; SQL {e.sql_text[:700]}",
                    sig=type(e.exc).__name__,
                    phase="database",
                    msg=str(e.exc),
                    node=node,
                )
            except KeyError as e:
                raise Violation("result-shape", f"column {e} missing from result; {ctx}", sig="KeyError", phase="fetch")
        if id(prog) in rels:
            ks = kinds(prog)
            lv = select_levels(rels[id(prog)]) if which == "sql" else 0
            stats.c[f"{which}:accepted"] += 1
            if "join" in ks or "chain" in ks or lv >= 2:
                cls = which + ("/join" if "join" in ks else "") + ("/chain" if "chain" in ks else "") + f"/levels={min(lv, 4)}"
                stats.mark_nontrivial(codec.digest(case), lambda: describe(case), cls=cls)
    finally:
        env.close()


def describe(case):
    return describe_case(*case[1], engine=case[0])


EXHAUSTIVE_NOTE = "SELECT-rule matrix of vf/core/matrix.py (one further operation on all bases; two further operations on the leaf base; thorough: all bases)"


def exhaustive(tier, stats, shard, nshards, run):
    from vf.core.matrix import select_matrix

    plans = [(1, ("leaf", "sel", "chain", "join")), (2, ("leaf",) if tier == "quick" else ("leaf", "sel", "chain", "join"))]
    idx = 0
    for steps, bases in plans:
        for label, case in select_matrix(steps, 0, bases):
            idx += 1
            if idx % nshards != shard:
                continue
            case = ("sql", case)
            try:
                run(case)
            except Violation as v:
                v.case = case
                raise
            stats.c["matrix_cases"] += 1


def attribute(case, v):
    """Known findings (see vf/core/known.py): trigger over the failing sub-program AND symptom of the failure."""
    from vf.core.known import TRIGGERS

    node = v.extra.get("node")
    if node is None or case[0] != "sql":
        return None
    msg = str(v.extra.get("msg", ""))
    sig = str(v.extra.get("sig", ""))
    if v.kind == "database-rejected" and "syntax error" in msg and ('near "("' in msg or 'near "UNION"' in msg):
        if TRIGGERS["D11"](node):
            return "D11"
    if v.kind == "database-rejected" and "ORDER BY term does not match any column" in msg and TRIGGERS["D9"](node):
        return "D9"
    if v.kind == "compile-raised" and sig.startswith("KeyError@_engine.py:convert_column_expression") and TRIGGERS["D10"](node):
        return "D10"
    if v.kind == "database-rejected" and "no such column" in msg and TRIGGERS["D10"](node):
        return "D10"
    return None
