"""C19 — generated relation names are unique across all calls and threads."""
from __future__ import annotations

import sys
import threading

from hypothesis import strategies as st

from vf.core import codec
from vf.core.base import Violation
from vf.core.env import HarnessError
from vf.core.tags import VTag

ID = "C19"
LEVEL = "exploration"
TECHNIQUE = "stateful concurrency testing (Hypothesis-generated request histories): harness-owned cooperative scheduler with yield points on the engines' shared name counter, plus free-running threads"
LEVEL_TEXT = (
    "Bounded exploration: histories of 4-24 name requests (get_relation_name, unnamed leaf construction, materialized()) "
    "over 1-5 engines of both kinds (counters preset to digit-width boundaries), split over 2-8 threads.  Driver 1 lets real threads run freely behind a barrier "
    "with a 1 microsecond switch interval.  Driver 2 replaces relation_name_counter - the only shared mutable state - by "
    "a property whose reads and writes are yield points of a cooperative scheduler; a generated schedule decides which "
    "thread proceeds at every point, so every interleaving of counter reads and writes is a generated, shrinkable, "
    "replayable value (a picked thread that blocks on a lock inside the library is set aside, so a library that adds "
    "locking is not an alarm).  All names must be pairwise distinct - within the history and against every name handed "
    "out earlier in the process - and start with the requested prefix (prefixes include long, empty and underscore-ended ones)."
    "  Engines may be user-defined subclasses with their own __init__ (nothing the generated dataclass __init__ would run has run) or their own __post_init__."
)
LEVEL_NOTE = (
    "trusts: the scheduler harness; uniqueness ultimately rests on uuid4 - a change that merely weakens the random suffix is "
    "caught only with the corresponding collision probability, and pre-emption inside uuid4 itself is explored only by "
    "the free-running driver"
)
RULE = (
    "case = (engine kinds, per-thread request lists, schedule).  Oracle: all names handed out in the history (both "
    "drivers) are pairwise distinct, distinct from all names of earlier histories in the same process, and each starts with "
    "its prefix followed by '_'.  Non-trivial: >= 2 threads or >= 2 "
    "engines, >= 4 requests, and at least two requests with the same prefix observed the same counter value under the "
    "generated schedule (measured through the property getter); distinct by case digest."
)
ASSUMPTIONS = ["CPython threads; the counter attribute is the only shared mutable state touched by name generation"]

A = VTag("a", True, 1)
PREFIXES = ("leaf", "materialization", "x", "leaf_0001", "p" * 60, "dataset_query_" + "q" * 56, "stage__", "__", "", "x_")
# starting values of the public per-engine counter field: digit-width boundaries of any fixed-width rendering
PRESETS = (0, 0, 0, 1, 9, 10, 99, 100, 999, 1000, 9998, 9999, 10000, 10001, 99999, 100000)
# every name handed out in this process, over all cases: the property quantifies over any history of requests
_ALL_NAMES = {}


def budget(tier):
    return 800 if tier == "quick" else 6000


@st.composite
def st_case(draw, tier):
    nengines = draw(st.integers(1, 5))
    engines = tuple((draw(st.sampled_from(["it", "sql", "it", "sql", "it-init", "it-post"])), draw(st.sampled_from(PRESETS))) for _ in range(nengines))
    nthreads = draw(st.integers(2, 4 if tier == "quick" else 8))
    threads = []
    for _ in range(nthreads):
        reqs = draw(
            st.lists(
                st.tuples(
                    st.integers(0, nengines - 1), st.sampled_from(["name", "name", "name", "leaf", "mat", "reseed", "idleaf", "emptyleaf", "clone", "deepclone"]), st.sampled_from(PREFIXES)
                ),
                min_size=1,
                max_size=4,
            )
        )
        threads.append(tuple(reqs))
    schedule = tuple(draw(st.lists(st.integers(0, 7), min_size=4, max_size=60)))
    return (engines, tuple(threads), schedule)


def strategy(tier):
    return st_case(tier)


class Sched:
    """Cooperative scheduler: every managed thread blocks at each yield point until the main thread picks it."""

    def __init__(self, schedule):
        self.schedule = list(schedule) or [0]
        self.pos = 0
        self.cv = threading.Condition()
        self.state = {}
        self.turn = None
        self.local = threading.local()
        self.stalls = 0
        self.observed = []  # (tid, engine id, counter value read)
        self.errors = []

    def yield_point(self):
        tid = getattr(self.local, "tid", None)
        if tid is None:
            return
        with self.cv:
            self.state[tid] = "blocked"
            self.cv.notify_all()
            while self.turn != tid:
                if not self.cv.wait(timeout=120):
                    raise HarnessError("scheduler: thread starved")
            self.turn = None

    def run(self, workers):
        threads = []

        def body(tid, fn):
            self.local.tid = tid
            try:
                self.yield_point()
                fn()
            except BaseException as e:  # noqa
                self.errors.append(e)
            finally:
                self.local.tid = None
                with self.cv:
                    self.state[tid] = "done"
                    self.cv.notify_all()

        for tid, fn in enumerate(workers):
            self.state[tid] = "running"
            t = threading.Thread(target=body, args=(tid, fn), daemon=True)
            threads.append(t)
            t.start()
        while True:
            with self.cv:
                waited = 0.0
                while any(s == "running" for s in self.state.values()):
                    if self.cv.wait(timeout=0.5):
                        continue
                    waited += 0.5
                    # a picked thread that reaches neither a yield point nor its end is waiting for a lock inside the
                    # library (held by a thread parked at a yield point): set it aside and let the others proceed
                    if any(s == "blocked" for s in self.state.values()):
                        for t, s in self.state.items():
                            if s == "running":
                                self.state[t] = "stalled"
                                self.stalls += 1
                    elif waited > 60:
                        raise HarnessError("scheduler: a thread neither blocked nor finished")
                runnable = sorted(t for t, s in self.state.items() if s == "blocked")
                if not runnable:
                    if any(s == "stalled" for s in self.state.values()):
                        if not self.cv.wait(timeout=60):
                            raise HarnessError("scheduler: all remaining threads are stalled")
                        continue
                    break
                pick = runnable[self.schedule[self.pos % len(self.schedule)] % len(runnable)]
                self.pos += 1
                self.state[pick] = "running"
                self.turn = pick
                self.cv.notify_all()
        for t in threads:
            t.join(timeout=20)
        if self.errors:
            raise self.errors[0]


def _spec(e):
    return (e, 0) if isinstance(e, str) else tuple(e)


def make_engine(spec, sched, idx):
    from lsst.daf.relation import iteration, sql

    kind, preset = _spec(spec)
    base = iteration.Engine if kind.startswith("it") else sql.Engine
    if kind == "it-init":
        # a user-defined engine with its own __init__ that sets the documented fields itself (the pattern of the toy
        # engines in the library's own tests): nothing the dataclass-generated __init__ would have run has run
        class OwnInit(base):
            def __init__(self, name, relation_name_counter=0):
                self.name = name
                self.functions = {}
                self.registry = {}
                if relation_name_counter:
                    self.relation_name_counter = relation_name_counter

        base = OwnInit
    elif kind == "it-post":
        # a user-defined dataclass engine with a __post_init__ hook of its own (chains up if the base has one)
        import dataclasses

        @dataclasses.dataclass(repr=False, eq=False, kw_only=True)
        class OwnPostInit(base):
            def __post_init__(self):
                up = getattr(super(), "__post_init__", None)
                if up is not None:
                    up()
                self.functions.setdefault("vf_neg", lambda x: -x)

        base = OwnPostInit
    if sched is None:
        return base(name=f"E{idx}", relation_name_counter=preset) if preset else base(name=f"E{idx}")

    class Scheduled(base):
        pass

    def getter(self):
        sched.yield_point()
        v = self.__dict__.get("_vf_counter", 0)
        sched.observed.append((getattr(sched.local, "tid", None), idx, v))
        return v

    def setter(self, v):
        sched.yield_point()
        self.__dict__["_vf_counter"] = v

    Scheduled.relation_name_counter = property(getter, setter)
    return Scheduled(name=f"E{idx}", relation_name_counter=preset) if preset else Scheduled(name=f"E{idx}")


def request(engine, kind, what, prefix):
    """Issue one name request; returns the generated name."""
    from lsst.daf.relation import LeafRelation, Materialization, iteration, sql

    from vf.core.prog import lib_nodes

    if what == "reseed":
        # application code is free to (re)seed the process-wide random module at any time
        import random

        random.seed(len(prefix))
        return None
    if what == "name":
        return engine.get_relation_name(prefix)
    if what in ("clone", "deepclone"):
        # an engine duplicated with the copy module is a different engine (it starts from the original's counter value):
        # the names it hands out must differ from the original's
        import copy

        twin = copy.copy(engine) if what == "clone" else copy.deepcopy(engine)
        return [engine.get_relation_name(prefix), twin.get_relation_name(prefix), engine.get_relation_name(prefix), twin.get_relation_name(prefix)]
    if what == "idleaf":
        # an unnamed leaf with no columns and exactly one row (a join identity) is still a new leaf that needs a name
        if kind.startswith("it"):
            leaf = engine.make_leaf(set(), iteration.RowSequence([{}]), name_prefix=prefix)
        else:
            import sqlalchemy as sa

            t = sa.table("t", sa.column("a"))
            leaf = engine.make_leaf(set(), sql.Payload(t), min_rows=1, max_rows=1, name_prefix=prefix)
        for n in lib_nodes(leaf):
            if isinstance(n, LeafRelation):
                return n.name
        raise AssertionError("no leaf")
    if what == "emptyleaf":
        # a leaf without rows is still a new leaf that gets a generated name with the requested prefix
        if kind.startswith("it"):
            leaf = engine.make_leaf({A}, iteration.RowSequence([]), name_prefix=prefix)
        else:
            import sqlalchemy as sa

            t = sa.table("t", sa.column("a"))
            leaf = engine.make_leaf({A}, sql.Payload(t, columns_available={A: t.c.a}), min_rows=0, max_rows=0, name_prefix=prefix)
        for n in lib_nodes(leaf):
            if isinstance(n, LeafRelation):
                return n.name
        raise AssertionError("no leaf")
    if kind.startswith("it"):
        payload = iteration.RowSequence([{A: 1}, {A: 2}])
        leaf = engine.make_leaf({A}, payload, name_prefix=prefix) if what == "leaf" else engine.make_leaf({A}, payload, name="fixed")
    else:
        import sqlalchemy as sa

        t = sa.table("t", sa.column("a"))
        payload = sql.Payload(t, columns_available={A: t.c.a})
        leaf = engine.make_leaf({A}, payload, name_prefix=prefix) if what == "leaf" else engine.make_leaf({A}, payload, name="fixed")
    if what == "leaf":
        for n in lib_nodes(leaf):
            if isinstance(n, LeafRelation):
                return n.name
        raise AssertionError("no leaf")
    rel = leaf.without_duplicates().materialized(name_prefix=prefix)
    for n in lib_nodes(rel):
        if isinstance(n, Materialization):
            return n.name
    raise Violation("no-materialization", f"materialized() of {leaf.without_duplicates()} has no Materialization node: {rel}")


def check_names(names, driver, ctx):
    seen = {}
    nd = driver == "free-running"
    for tid, prefix, name in names:
        if not isinstance(name, str) or not name.startswith(prefix + "_"):
            raise Violation("prefix-missing", f"[{driver}] name {name!r} does not start with the requested prefix {prefix!r}; {ctx}", driver=driver, nondeterministic=nd)
        if name in seen:
            raise Violation(
                "duplicate-name", f"[{driver}] name {name!r} handed out twice (threads {seen[name]} and {tid}); {ctx}", driver=driver, nondeterministic=nd
            )
        seen[name] = tid
    for tid, prefix, name in names:
        if name in _ALL_NAMES:
            raise Violation(
                "duplicate-name-across-cases",
                f"[{driver}] name {name!r} was already handed out earlier in this process ({_ALL_NAMES[name]}); now again in: {ctx}",
                driver=driver,
                nondeterministic=True,
            )
    for tid, prefix, name in names:
        _ALL_NAMES[name] = ctx[:300]


def run_case(case, stats):
    engines_spec, threads, schedule = case
    ctx = f"engines {engines_spec}; {len(threads)} threads; requests {threads}"
    # ---- driver 2: harness-owned schedule
    sched = Sched(schedule)
    engines = [make_engine(k, sched, i) for i, k in enumerate(engines_spec)]
    names = []
    lock = threading.Lock()

    def worker(tid, reqs, engs):
        def fn():
            for ei, what, prefix in reqs:
                name = request(engs[ei], _spec(engines_spec[ei])[0], what, prefix)
                if name is None:
                    continue
                with lock:
                    names.extend((tid, prefix, n) for n in (name if isinstance(name, list) else [name]))

        return fn

    sched.run([worker(t, reqs, engines) for t, reqs in enumerate(threads)])
    check_names(names, "scheduled", ctx)
    # ---- driver 1: free-running threads
    engines1 = [make_engine(k, None, i) for i, k in enumerate(engines_spec)]
    names1 = []
    barrier = threading.Barrier(len(threads))
    errors = []

    def free(tid, reqs):
        def fn():
            try:
                barrier.wait(timeout=20)
                for _ in range(3):
                    for ei, what, prefix in reqs:
                        # duplicating an engine while other threads use it is a race in the *caller*: with free-running
                        # threads the clone requests are plain name requests (the scheduled driver, where a request runs
                        # atomically between yield points, issues them as they are)
                        name = request(engines1[ei], _spec(engines_spec[ei])[0], "name" if what in ("clone", "deepclone") else what, prefix)
                        if name is None:
                            continue
                        with lock:
                            names1.extend((tid, prefix, n) for n in (name if isinstance(name, list) else [name]))
            except BaseException as e:  # noqa
                errors.append(e)

        return fn

    old = sys.getswitchinterval()
    sys.setswitchinterval(1e-6)
    try:
        ts = [threading.Thread(target=free(t, reqs), daemon=True) for t, reqs in enumerate(threads)]
        for t in ts:
            t.start()
        for t in ts:
            t.join(timeout=30)
    finally:
        sys.setswitchinterval(old)
    if errors:
        e = errors[0]
        if isinstance(e, Violation):
            raise e
        raise HarnessError(f"free-running driver: {type(e).__name__}: {e}")
    check_names(names1, "free-running", ctx)
    # ---- statistics
    nreq = sum(len(r) for r in threads)
    collisions = 0
    by = {}
    for tid, ei, v in sched.observed:
        by.setdefault((ei, v), set()).add(tid)
    same_counter = sum(1 for tids in by.values() if len(tids) >= 2)
    stats.c["requests"] += nreq
    stats.c["picked_threads_set_aside_waiting_for_a_library_lock"] += sched.stalls
    stats.c["engines_with_preset_counter"] += sum(1 for e in engines_spec if _spec(e)[1])
    stats.c["counter_values_read_by_2+_threads"] += same_counter
    # two engines handing out the same (prefix, counter) pair
    cross = {}
    for tid, prefix, name in names:
        parts = name[len(prefix) + 1 :].split("_")
        cross.setdefault((prefix, parts[0]), 0)
        cross[(prefix, parts[0])] += 1
    same_prefix_counter = sum(1 for v in cross.values() if v >= 2)
    stats.c["same_prefix_and_counter_pairs"] += same_prefix_counter
    if nreq >= 4 and same_prefix_counter >= 1:
        stats.mark_nontrivial(codec.digest(case), lambda: describe(case), cls=f"engines={len(engines_spec)}/threads={min(len(threads), 4)}")


def describe(case):
    engines_spec, threads, schedule = case
    return {"engines": [list(_spec(e)) for e in engines_spec], "threads": [[f"E{e}:{w}:{p}" for e, w, p in reqs] for reqs in threads], "schedule": list(schedule)}


def attribute(case, v):
    return None
