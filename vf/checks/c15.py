"""C15 — transfer / materialize simplifications keep content; locked trees are inviolate."""
from __future__ import annotations

import itertools

from hypothesis import strategies as st

from vf.core import codec
from vf.core.base import Violation
from vf.core.env import DatabaseError, Env
from vf.core.gen import Cfg, st_program
from vf.core.proc import execute_processed, make_processor
from vf.core.prog import BuildError, apply_node, children, compare, describe_case, engine_of, ev_multi, fmt, kinds, lib_nodes, walk
from vf.checks import c03
from vf.checks.c02 import is_order_loss
from vf.runner import exc_sig

ID = "C15"
LEVEL = "exploration"
TECHNIQUE = "model-based testing (Hypothesis-generated call histories over three engines): after every tree-building call the result is walked for identity of every locked node of the inputs; transfer / materialize simplifications checked against an independent evaluator"
LEVEL_TEXT = (
    "Bounded exploration: programs that interleave transfers among three engines, operations and materializations, built "
    "call by call, plus base-tree + final-operation cases issued with every preferred-engine option combination.  After "
    "each call: every leaf / materialization of the operand trees that appears (by name) in the result must be the "
    "identical object; a transfer's result must have the operand's content in the requested engine (also there-and-back); "
    "materializing a leaf or a materialization must add no Materialization node.  After each materialization the tree "
    "is processed (so the node carries a payload) and factories are called directly on the bare cached node; every "
    "program is repeated over twin leaves (same names, other rows) in the same engines, where the original operation "
    "relations are also re-applied (public reapply) to the twin operands.  Every relation built is materialized as a "
    "probe (columns kept, locked nodes kept); generated materializations are compared on content."
    "  The program is chained with its twin-leaf copy in both orders: every locked node of either operand must be in "
    "the result as the identical object."
    "  Iteration-rooted programs are pinned in the other iteration engine by a user-defined marker that declares itself locked, then sent back / refined with the original engine preferred: the pinned node must stay in the result as that object."
)
LEVEL_NOTE = "trusts: names are unique per case (harness-chosen), ev_multi labels, harness Processor for executing multi-engine results; Processor.process itself is excluded (it re-creates markers by design)"
RULE = (
    "case = multi-engine program with many transfers and materializations, or (base, final operation) with all "
    "option combinations.  Oracles per factory call: locked-node identity (leaf / materialization objects found by "
    "name in the result are the operands' objects); transfer: result.engine is the destination and processed rows compare "
    "equal to ev_multi; materialized() of a leaf / materialization (through same-engine markers) adds no Materialization "
    "node.  Non-trivial: the tree holds a materialization below >= 1 operation and a backtracking / transferring call was "
    "made on it, or a transfer chain of length >= 2; distinct by case digest."
)
ASSUMPTIONS = ["P1, P4, P8"]


def cfg(tier):
    return Cfg(
        engines=(0, 1, 2),
        binary=("chain", "join"),
        markers=("mat", "xfer", "xfer", "xfer", "mat"),
        max_ops=8 if tier == "quick" else 12,
        p_binary=0.12,
        avoid=frozenset(["D9", "D10", "D11"]),
    )


def budget(tier):
    return 4000 if tier == "quick" else 50000


@st.composite
def st_transfer_chain(draw, tier):
    """A program followed by a chain of 2-3 transfers, optionally on a column-less projection."""
    universe, leaves, prog = draw(st_program(cfg(tier)))
    if draw(st.booleans()):
        prog = ("proj", prog, ())
    eng = engine_of(prog, leaves)
    for _ in range(draw(st.integers(2, 3))):
        dest = draw(st.sampled_from([e for e in (0, 1, 2) if e != eng]))
        prog = ("xfer", prog, dest)
        eng = dest
    return (universe, leaves, prog)


def strategy(tier):
    return st.one_of(
        st.tuples(st.just("prog"), st_program(cfg(tier))),
        st.tuples(st.just("prog"), st_transfer_chain(tier)),
        st.tuples(st.just("opt"), c03.st_case(tier, p_mat=3)),
    )


def locked_index(rel, index=None):
    from lsst.daf.relation import LeafRelation, Materialization

    index = {} if index is None else index
    for n in lib_nodes(rel):
        if isinstance(n, LeafRelation):
            index.setdefault(("leaf", n.name, id(n.engine)), n)
        elif isinstance(n, Materialization):
            index.setdefault(("mat", n.name, id(n.engine)), n)
    return index


def check_locked(result, index, what):
    from lsst.daf.relation import LeafRelation, Materialization

    for n in lib_nodes(result):
        key = None
        if isinstance(n, LeafRelation):
            key = ("leaf", n.name, id(n.engine))
        elif isinstance(n, Materialization):
            key = ("mat", n.name, id(n.engine))
        if key is not None and key in index and index[key] is not n:
            raise Violation(
                "locked-node-rewritten",
                f"{key[0]} {key[1]!r} of the input tree reappears in the result as a different object: input {str(index[key])[:160]} / result {str(n)[:160]}; call {what}",
                node_kind=key[0],
            )


def count_mats(rel):
    from lsst.daf.relation import Materialization

    return sum(1 for n in {id(x): x for x in lib_nodes(rel)}.values() if isinstance(n, Materialization))


def peel_same_engine_markers(rel):
    from lsst.daf.relation import LeafRelation, MarkerRelation, Materialization, Transfer

    while isinstance(rel, MarkerRelation) and not isinstance(rel, (Materialization, Transfer)) and rel.target.engine is rel.engine:
        rel = rel.target
    return rel


def roundtrip_temporaries(env, leaves, stats):
    """There-and-back transfers of each leaf through every other engine, dropping the intermediate relation each time
    (its address may be re-used by the next one): the round trip gives back that very leaf.  Also: asking an engine to
    transfer a relation to itself *with a payload* must be refused or give a well-formed tree, never a self-transfer."""
    from lsst.daf.relation import EngineError, LeafRelation, iteration

    from vf.core.wellformed import check_tree

    # tight loop first: nothing else is allocated between dropping one intermediate and creating the next
    data = [(r, [n for n in lib_nodes(r) if isinstance(n, LeafRelation)][0]) for i, r in enumerate(env.leafrels) if leaves[i][4] == "data"]
    # ... including several leaves of one engine (each round trip must give back *its* leaf)
    if any(l[1] for l in leaves):
        t = sorted({c for l in leaves for c in l[1]}, key=lambda c: c.qualified_name)[0]
        for k in range(4):
            extra = env.engines[1].make_leaf({t}, iteration.RowSequence([{t: k}]), name=f"roundtrip{k}")
            data.append((extra, extra))
    suspects = []
    trips = [(leafrel, own, dest) for leafrel, own in data for dest in env.engines if dest is not leafrel.engine] * 3
    for leafrel, own, dest in trips:
        back = leafrel.transferred_to(dest).transferred_to(leafrel.engine)
        if back is not leafrel:
            suspects.append((leafrel, own, dest, back))
    for leafrel, own, dest, back in suspects:
        found = [n for n in lib_nodes(back) if isinstance(n, LeafRelation)]
        if len(found) != 1 or found[0] is not own:
            raise Violation(
                "transfer-changed-content",
                f"{own.name}.transferred_to({dest}).transferred_to({leafrel.engine}) returned {str(back)[:200]} (leaves {[n.name for n in found]}), not the leaf itself",
            )
    del suspects
    for _ in range(1):
        for i, leafrel in enumerate(env.leafrels):
            if leaves[i][4] != "data":
                continue
            own = [n for n in lib_nodes(leafrel) if isinstance(n, LeafRelation)][0]
            for dest in env.engines:
                if dest is leafrel.engine:
                    continue
                try:
                    tmp = leafrel.transferred_to(dest)
                    back = tmp.transferred_to(leafrel.engine)
                except Exception as e:
                    raise Violation("call-raised", f"round trip of leaf {own.name}: {type(e).__name__}: {e}", sig=exc_sig(e))
                found = [n for n in lib_nodes(back) if isinstance(n, LeafRelation)]
                if len(found) != 1 or found[0] is not own or back.engine is not leafrel.engine:
                    raise Violation(
                        "transfer-changed-content",
                        f"{own.name}.transferred_to({dest}).transferred_to({leafrel.engine}) returned {str(back)[:200]} (leaves {[n.name for n in found]}), not the leaf itself",
                    )
                # the same round trip through the low-level call with a payload
                try:
                    forced = leafrel.engine.transfer(tmp, payload=iteration.RowSequence([]))
                except EngineError:
                    forced = None
                except Exception as e:
                    raise Violation("call-raised", f"Engine.transfer with a payload on a round trip: {type(e).__name__}: {e}", sig=exc_sig(e))
                if forced is not None:
                    bad = check_tree(forced)
                    if bad:
                        raise Violation("transfer-ill-formed", f"[{bad[0]}] {bad[1]}; produced by Engine.transfer(round trip of {own.name}, payload=...)")
                del tmp, back, forced
                stats.c["roundtrip-temporaries"] += 1


_PIN = None


def pin_marker():
    """A user-defined marker that declares itself locked (MarkerRelation.is_locked is an overridable property: 'this
    relation and those upstream of it should be considered fixed by tree-manipulation algorithms')."""
    global _PIN
    if _PIN is None:
        import dataclasses as _dc

        from lsst.daf.relation import MarkerRelation

        @_dc.dataclass(frozen=True)
        class Pin(MarkerRelation):
            @property
            def is_locked(self):
                return True

            def __str__(self):
                return f"pin({self.target})"

        _PIN = Pin
    return _PIN


def locked_marker_probe(prog, leaves, env, stats):
    """Only *unlocked* markers are crossed when a transfer goes straight back: the program's root (iteration engine X) is
    sent to the other iteration engine, pinned there by a locked user-defined marker, and sent back / refined with X as
    preferred engine.  The pinned node must be in the result as that object, with the original rows in the requested engine."""
    from lsst.daf.relation import ColumnError, ColumnExpression, EngineError

    from vf.core.prog import build_all, ev_list, OutOfDomain
    from vf.core.tags import sorted_tags

    try:
        expected = ev_list(prog, leaves, check_fd=False)
        root = build_all(prog, env)[id(prog)]
    except (BuildError, OutOfDomain, Exception):
        return
    X = root.engine
    others = [e for e in env.engines[1:] if e is not X]
    if not others or X is env.sql:
        return
    Y = others[0]
    try:
        pinned = pin_marker()(target=root.transferred_to(Y))
    except Exception:
        return
    cols = sorted_tags(root.columns)
    calls = [("transferred_to(X)", lambda: pinned.transferred_to(X), expected)]
    if cols:
        ref = ColumnExpression.reference(cols[0])
        calls.append(
            (
                "with_rows_satisfying(c >= 0, preferred_engine=X, transfer=True)",
                lambda: pinned.with_rows_satisfying(ref.ge(ColumnExpression.literal(0)), preferred_engine=X, transfer=True),
                [r for r in expected if r[cols[0]] >= 0],
            )
        )
    for what, call, exp in calls:
        try:
            res = call()
        except (ColumnError, EngineError):
            stats.c["pin:refused"] += 1
            continue
        except Exception as e:
            raise Violation("call-raised", f"{what} on a locked user-defined marker over {fmt(prog, leaves)}: {type(e).__name__}: {e}", sig=exc_sig(e))
        if not any(n is pinned for n in lib_nodes(res)):
            raise Violation("locked-node-rewritten", f"{what}: the locked user-defined marker is not in the result (as that object): {str(res)[:300]}; pinned {str(pinned)[:200]}", node_kind="pin")
        if res.engine is not X:
            raise Violation("wrong-engine", f"{what}: result lives in {res.engine}, not in the requested engine; {str(res)[:200]}")
        if any(engine_of(n, leaves) == 0 for n in walk(prog)):
            stats.c["pin:checked-structure-only"] += 1
            continue  # a SQL part upstream: rows need a Processor and have no promised order (content is C03 / C07)
        try:
            got = env.run_iter(res)
        except Exception as e:
            raise Violation("call-raised", f"executing the result of {what}: {type(e).__name__}: {e}; tree {str(res)[:300]}", sig=exc_sig(e))
        if got != exp:
            raise Violation("content-changed", f"{what} over {fmt(prog, leaves)}: expected {exp} got {got}; tree {str(res)[:300]}")
        stats.c["pin:checked"] += 1


def run_case(case, stats):
    from lsst.daf.relation import ColumnError, EngineError, LeafRelation, Materialization

    kind, body = case
    if kind == "prog":
        universe, leaves, prog = body
        if any(n[0] == "join" and engine_of(n, leaves) != 0 for n in walk(prog)):
            stats.c["skipped:iteration-join"] += 1
            return
        from vf.core.prog import twin_leaves

        env = Env(leaves)
        try:
            nontrivial = False

            def run_program(envx, leavesx, label, orig_rels=None):
                nonlocal nontrivial
                memo = {}
                ev_multi(prog, leavesx, memo=memo)
                rels = {}
                for node in walk(prog):
                    if node[0] == "leaf":
                        rels[id(node)] = envx.leafrels[node[1]]
                        continue
                    ops = [rels.get(id(c)) for c in children(node)]
                    if any(o is None for o in ops):
                        continue
                    index = {}
                    for o in ops:
                        locked_index(o, index)
                    what = label + fmt(node, leavesx)
                    try:
                        res = apply_node(node, ops, envx)
                    except Exception as e:
                        if is_order_loss(e) or isinstance(e, (ColumnError, EngineError)):
                            stats.c["call:refused"] += 1
                            continue
                        raise Violation("call-raised", f"{what}: {type(e).__name__}: {e}", sig=exc_sig(e))
                    rels[id(node)] = res
                    check_locked(res, index, what)
                    if orig_rels is not None:
                        # re-applying the operation of the original relation to these (equal, but distinct) operands
                        # must build on *these* operands - their locked nodes, their payloads
                        from lsst.daf.relation import BinaryOperationRelation, UnaryOperationRelation

                        orig = orig_rels.get(id(node))
                        kids = [orig_rels.get(id(c)) for c in children(node)]
                        direct = (
                            isinstance(orig, UnaryOperationRelation) and len(kids) == 1 and orig.target is kids[0]
                        ) or (isinstance(orig, BinaryOperationRelation) and len(kids) == 2 and orig.lhs is kids[0] and orig.rhs is kids[1])
                        if direct and all(o.engine is orig.engine for o in ops):
                            try:
                                again = orig.reapply(*ops)
                            except Exception as e:
                                if not (is_order_loss(e) or isinstance(e, (ColumnError, EngineError))):
                                    raise Violation("call-raised", f"reapply of {what}: {type(e).__name__}: {e}", sig=exc_sig(e))
                                again = None
                            if again is not None:
                                check_locked(again, index, f"reapply() of the original relation to the operands of {what}")
                                stats.c["reapply-to-twin-operands"] += 1
                    stats.c["calls_checked"] += 1
                    # transfer to the relation's own engine: original content, same engine
                    try:
                        same = res.transferred_to(res.engine)
                    except Exception as e:
                        raise Violation("self-transfer-raised", f"transferred_to(own engine) raised {type(e).__name__}: {e}; relation {str(res)[:200]}", sig=exc_sig(e))
                    if same is not res:
                        if same.engine is not res.engine:
                            raise Violation("transfer-wrong-engine", f"transferred_to(own engine) returned a relation in {same.engine}; relation {str(res)[:200]}")
                        truth = memo[id(node)]
                        try:
                            got = execute_processed(envx, make_processor(envx).process(same))
                        except Exception:
                            got = None
                        if got is not None:
                            bad = compare(truth, got)
                            if bad:
                                raise Violation("transfer-changed-content", f"transferred_to(own engine): {bad}; result {str(same)[:200]}; relation {str(res)[:200]}")
                        stats.c["self-transfer:new-object"] += 1
                    if node[0] == "mat":
                        src = peel_same_engine_markers(ops[0])
                        if isinstance(src, (LeafRelation, Materialization)) and count_mats(res) != count_mats(ops[0]):
                            raise Violation("materialization-added", f"materialized() of a {type(src).__name__} added a Materialization node: {str(res)[:200]}; call {what}")
                    if node[0] != "mat":
                        # probe: materializing whatever was just built keeps its columns, and adds no materialization
                        # when the relation is (through same-engine markers) a leaf or a materialization
                        try:
                            probe = res.materialized(f"probe{len(rels)}")
                        except Exception as e:
                            if not (is_order_loss(e) or isinstance(e, (ColumnError, EngineError))):
                                raise Violation("call-raised", f"materialized() of {what}: {type(e).__name__}: {e}", sig=exc_sig(e))
                            probe = None
                        if probe is not None:
                            if set(probe.columns) != set(res.columns):
                                raise Violation("materialize-changed-content", f"materialized() returned columns {set(probe.columns)} for a relation with columns {set(res.columns)}: {str(res)[:200]} -> {str(probe)[:200]}")
                            check_locked(probe, locked_index(res), f"materialized() of {what}")
                            src = peel_same_engine_markers(res)
                            if isinstance(src, (LeafRelation, Materialization)) and count_mats(probe) != count_mats(res):
                                raise Violation("materialization-added", f"materialized() of a {type(src).__name__} added a Materialization node: {str(probe)[:200]}; relation {what}")
                            stats.c["materialize-probes"] += 1
                    if node[0] == "mat":
                        # materializing (also when it simplifies to nothing) keeps columns and content
                        from vf.core.prog import schema as _schema

                        if set(res.columns) != set(_schema(node, leavesx)):
                            raise Violation("materialize-changed-content", f"materialized() returned columns {set(res.columns)}, the operand has {set(_schema(node, leavesx))}; call {what}")
                        try:
                            got = execute_processed(envx, make_processor(envx).process(res))
                        except Exception:
                            got = None  # C07 / C08
                        if got is not None:
                            bad = compare(memo[id(node)], got)
                            if bad:
                                raise Violation("materialize-changed-content", f"{bad}; result {str(res)[:200]}; call {what}")
                            stats.c["materializations_compared"] += 1
                    if node[0] == "mat":
                        # histories: the tree is processed (its materializations gain payloads), then more is built
                        # directly on the locked node - it must stay the identical, payload-sharing object
                        try:
                            make_processor(envx).process(res)
                        except Exception:
                            pass  # C07's subject
                        bare = peel_same_engine_markers(res)
                        if isinstance(bare, Materialization):
                            bidx = locked_index(bare)
                            payload0 = bare.payload
                            keys = {c for c in bare.columns if c.is_key}
                            calls = [
                                ("without_duplicates()", lambda: bare.without_duplicates()),
                                ("chain(itself)", lambda: bare.chain(bare)),
                                ("join(projection onto its key columns)", lambda: bare.join(bare.with_only_columns(keys))),
                                ("with_only_columns(all)", lambda: bare.with_only_columns(set(bare.columns))),
                            ]
                            for lbl, call in calls:
                                try:
                                    out = call()
                                except Exception as e:
                                    if is_order_loss(e) or isinstance(e, (ColumnError, EngineError)):
                                        continue
                                    raise Violation("call-raised", f"{lbl} on the bare materialization of {what}: {type(e).__name__}: {e}", sig=exc_sig(e))
                                check_locked(out, bidx, f"{lbl} on the bare materialization node of {what}")
                                if bare.payload is not payload0:
                                    raise Violation("locked-node-rewritten", f"{lbl}: the payload of the input materialization was replaced; {what}", node_kind="mat")
                                stats.c["calls_on_bare_cached_materialization"] += 1
                    if node[0] == "xfer":
                        dest = envx.engines[node[2]]
                        if count_mats(res) < count_mats(ops[0]):
                            raise Violation(
                                "materialization-dropped",
                                f"transferred_to() returned a tree with fewer materializations than its operand (a locked node was simplified away): {str(ops[0])[:200]} -> {str(res)[:200]}; call {what}",
                            )
                        if res.engine is not dest:
                            raise Violation("transfer-wrong-engine", f"result lives in {res.engine}, requested {dest}; call {what}")
                        truth = memo[id(node)]
                        proc = make_processor(envx)
                        try:
                            got = execute_processed(envx, proc.process(res))
                        except DatabaseError:
                            got = None
                        except Exception as e:
                            # whether an accepted tree can be compiled / processed at all is C08's and C07's subject
                            stats.c["transfer:result-not-executable-" + type(e).__name__] += 1
                            got = None
                        if got is not None:
                            bad = compare(truth, got)
                            if bad:
                                raise Violation("transfer-changed-content", f"{bad}; result {str(res)[:200]}; call {what}")
                            stats.c["transfers_compared"] += 1
                        if node[1][0] == "xfer":
                            stats.c["transfer-chain"] += 1
                            nontrivial = True
                return rels

            rels_first = run_program(env, leaves, "")
            roundtrip_temporaries(env, leaves, stats)
            # the same program over twin leaves (same names / columns / engines, other rows, distinct objects): equal
            # relations are not interchangeable - a locked node found by name must be the operand's own object
            leaves2 = twin_leaves(leaves)
            tw = env.twin(leaves2)
            try:
                rels_twin = run_program(tw, leaves2, "[twin leaves] ", rels_first)
                stats.c["twin-programs"] += 1
                # a binary call whose operands compare equal but are distinct objects over distinct locked nodes: every
                # locked node of either operand must be in the result as the identical object
                r1, r2 = rels_first.get(id(prog)), rels_twin.get(id(prog))
                if r1 is not None and r2 is not None and r1 is not r2:

                    def locked_ids(rel):
                        return {id(n): n for n in lib_nodes(rel) if isinstance(n, (LeafRelation, Materialization))}

                    for first, second, what in ((r1, r2, "original.chain(twin)"), (r2, r1, "twin.chain(original)")):
                        try:
                            both = first.chain(second)
                        except Exception as e:
                            if is_order_loss(e) or isinstance(e, (ColumnError, EngineError)):
                                break
                            raise Violation("call-raised", f"{what} of {fmt(prog, leaves)}: {type(e).__name__}: {e}", sig=exc_sig(e))
                        have = locked_ids(both)
                        for side, rel_side in (("left", first), ("right", second)):
                            for i, n in locked_ids(rel_side).items():
                                if i not in have:
                                    raise Violation(
                                        "locked-node-rewritten",
                                        f"{what} of {fmt(prog, leaves)}: the {side} operand's {type(n).__name__} {getattr(n, 'name', '')!r} is not in the result (as that object): {str(both)[:300]}",
                                        node_kind="leaf" if isinstance(n, LeafRelation) else "mat",
                                    )
                        stats.c["twin-chains"] += 1
            finally:
                tw.close_tables()
            ks = kinds(prog)
            if engine_of(prog, leaves) != 0:
                locked_marker_probe(prog, leaves, env, stats)
            if nontrivial or ("mat" in ks and "xfer" in ks):
                stats.mark_nontrivial(codec.digest(case), lambda: describe(case), cls="prog/" + "+".join(sorted(set(ks) & {"mat", "xfer", "join", "chain"})))
        finally:
            env.close()
        return
    universe, leaves, S, base, final, *rest = body
    from vf.core.prog import engine_of as _engine_of

    T = _engine_of(base, leaves)
    third = ({0, 1, 2} - {S, T}).pop()
    env = Env(leaves)
    try:
        rels = {}
        from vf.core.prog import build_all

        try:
            build_all(base, env, rels)
        except BuildError as b:
            if not (is_order_loss(b.exc) or isinstance(b.exc, (ColumnError, EngineError))):
                raise Violation("call-raised", f"{fmt(b.node, leaves)}: {type(b.exc).__name__}: {b.exc}", sig=exc_sig(b.exc))
            return
        root = rels[id(base)]
        fixed_rel = env.leafrels[final[2][1]] if final[0] == "join" else None
        index = locked_index(root)
        if fixed_rel is not None:
            locked_index(fixed_rel, index)
        if final[0] == "join":
            combos = [dict(backtrack=b, transfer=t) for b in (False, True) for t in (False, True)]
            prefs = [S]
        else:
            combos = [dict(backtrack=b, transfer=t, require_preferred_engine=r) for b in (False, True) for t in (False, True) for r in (False, True)]
            prefs = [S, T, third]
        for pref, opts in itertools.product(prefs, combos):
            o = dict(opts)
            if final[0] != "join":
                o["preferred_engine"] = env.engines[pref]
            label = f"{final[0]} preferred=E{pref} " + " ".join(f"{k}={v}" for k, v in opts.items()) + f" on {fmt(base, leaves)}"
            try:
                res = c03.issue(final, root, fixed_rel, env, o)
            except Exception as e:
                if is_order_loss(e) or isinstance(e, (ColumnError, EngineError)):
                    continue
                raise Violation("call-raised", f"{label}: {type(e).__name__}: {str(e)[:200]}", sig=exc_sig(e))
            check_locked(res, index, label)
            stats.c["calls_checked"] += 1
        if "mat" in kinds(base):
            stats.mark_nontrivial(codec.digest(case), lambda: describe(case), cls=f"opt/S=E{S}/{final[0]}")
    finally:
        env.close()


EXHAUSTIVE_NOTE = "the base x final-operation grid of C03 (vf/checks/c03.py:grid_cases), every option combination"


def exhaustive(tier, stats, shard, nshards, run):
    for idx, case in enumerate(c03.grid_cases(tier)):
        if idx % nshards != shard:
            continue
        case = ("opt", case)
        try:
            run(case)
        except Violation as v:
            v.case = case
            raise
        stats.c["grid_cases"] += 1


def describe(case):
    kind, body = case
    if kind == "prog":
        return describe_case(*body, kind="program")
    d = c03.describe(body)
    d["kind"] = "base + final operation, all option combinations"
    return d


def attribute(case, v):
    return None
