"""C12 — column expressions mean the same thing in every engine."""
from __future__ import annotations

import sqlalchemy as sa
from hypothesis import strategies as st

from vf.core import codec
from vf.core.base import Violation
from vf.core.env import HarnessError, db
from vf.core.expr import eval_e, eval_p, fmt_e, fmt_p, lib_e, lib_p, size_e, size_p, st_expr, st_pred
from vf.core.tags import VTag

ID = "C12"
LEVEL = "exploration"
TECHNIQUE = "property-based differential testing (Hypothesis): reference evaluator vs iteration-engine callable vs SQLite, exhaustive 343-row domain per expression"
LEVEL_TEXT = (
    "Bounded exploration: generated expressions/predicates over the portable operator set (depth <= 4, range literals "
    "with start/stop in -10..10 and step in -4..4 except 0, and/or arity 0-3, sequences of 1-4 expressions) are evaluated "
    "three ways on every row of {-3..3}^3; the row domain is exhaustive per expression, the expression space is sampled."
    "  Deeply nested expressions (33-40 levels); SQLite's parser nesting limit is counted as a database limit."
)
LEVEL_NOTE = "trusts: reference evaluator (vf/core/expr.py), SQLite 3.40 as the reference database, SQLAlchemy rendering"
RULE = (
    "case = a predicate or integer expression AST over columns a,b,c; evaluated on all 343 rows of {-3..3}^3 by (1) the "
    "reference evaluator, (2) iteration.Engine.convert_* callables, (3) sql.Engine.convert_* translated into a WHERE "
    "clause / SELECT item and run on SQLite (predicates also through convert_flattened_predicate).  All three must "
    "agree on every row.  Non-trivial: >= 2 operators; distinct by digest of the AST."
)
ASSUMPTIONS = ["NULL-free integer rows, magnitudes far below 2^62", "SQLite semantics stand for 'a database'"]

A = VTag("a", True, 1)
B = VTag("b", True, 2)
C = VTag("c", True, 3)
ROWS = [{A: a, B: b, C: c} for a in range(-3, 4) for b in range(-3, 4) for c in range(-3, 4)]
_TABLE = None


def table():
    global _TABLE
    if _TABLE is None:
        md = sa.MetaData()
        t = sa.Table("c12_dom", md, sa.Column("a", sa.Integer), sa.Column("b", sa.Integer), sa.Column("c", sa.Integer))
        try:
            t.create(db())
            db().execute(t.insert(), [{"a": r[A], "b": r[B], "c": r[C]} for r in ROWS])
        except Exception as e:  # pragma: no cover
            raise HarnessError(f"cannot create domain table: {e}") from e
        _TABLE = t
    return _TABLE


def budget(tier):
    return 3000 if tier == "quick" else 60000


@st.composite
def st_c12_range(draw):
    step = draw(st.sampled_from([-4, -3, -2, -1, 1, 1, 2, 3, 4]))
    if draw(st.integers(0, 3)) == 0:
        return (draw(st.integers(-10, 10)), draw(st.integers(-10, 10)), step)
    start = draw(st.integers(-8, 8))
    n = draw(st.integers(0, 4))
    jitter = draw(st.integers(0, abs(step) - 1)) if abs(step) > 1 else 0
    stop = start + step * n - (jitter if step > 0 else -jitter)
    return (start, stop, step)


@st.composite
def st_literal_memberships(draw):
    """Two or three memberships in sequences of literals, combined in one predicate (one statement)."""
    cols = [A, B, C]
    parts = []
    for _ in range(draw(st.integers(2, 3))):
        item = ("ref", draw(st.sampled_from(cols)))
        seq = tuple(("lit", v) for v in draw(st.lists(st.integers(-3, 3), min_size=1, max_size=3)))
        m = ("inseq", item, seq)
        parts.append(("not", m) if draw(st.integers(0, 4)) == 0 else m)
    return (draw(st.sampled_from(["and", "or"])), tuple(parts))


@st.composite
def st_deep_expr(draw):
    """A deeply nested arithmetic expression (33-40 levels of + and -; one operand of every level is a leaf): deep trees
    are what machine-written queries look like; magnitudes stay small.  Right-nested operands become nested parentheses
    in SQL, and SQLite's parser gives up beyond ~30 of them: that outcome is a limit of the database and is counted, not
    reported; the iteration engine is still compared with the reference, and left-nested trees reach the database."""
    cols = [A, B, C]
    e = ("ref", draw(st.sampled_from(cols)))
    for _ in range(draw(st.integers(33, 40))):
        r = draw(st.integers(1, 9))
        leaf = ("ref", draw(st.sampled_from(cols))) if draw(st.booleans()) else ("lit", draw(st.integers(-3, 3)))
        op = "sub" if r < 6 else "add"
        e = (op, e, leaf) if draw(st.booleans()) else (op, leaf, e)
    return e


@st.composite
def st_case(draw):
    kind = draw(st.sampled_from(["pred", "pred", "pred", "pred", "range", "range", "expr", "expr", "literal-memberships", "literal-memberships", "deep"]))
    cols = [A, B, C]
    if kind == "deep":
        e = draw(st_deep_expr())
        if draw(st.booleans()):
            return ("expr", e)
        return ("pred", (draw(st.sampled_from(["lt", "ge", "eq"])), e, ("lit", draw(st.integers(-3, 3)))))
    if kind == "literal-memberships":
        return ("pred", draw(st_literal_memberships()))
    if kind == "expr":
        return ("expr", draw(st_expr(cols, draw(st.integers(1, 4)))))
    if kind == "range":
        e = draw(st_expr(cols, 1, need_ref=True))
        return ("pred", ("inrange", e, draw(st_c12_range())))
    return ("pred", draw(st_pred(cols, draw(st.integers(0, 3)), draw(st.integers(0, 2)), ranges=st_c12_range())))


def strategy(tier):
    return st_case()


def range_shape(p, out):
    k = p[0]
    if k == "inrange":
        s, e, step = p[2]
        n = len(range(s, e, step))
        out.add(
            ("neg-step" if step < 0 else "unit-step" if step == 1 else "step>1")
            + ("/empty" if n == 0 else "/single" if n == 1 else "/multi")
            + ("/neg-members" if n and min(range(s, e, step)) < 0 else "")
        )
    elif k in ("and", "or"):
        for q in p[1]:
            range_shape(q, out)
    elif k == "not":
        range_shape(p[1], out)


def operators(p, out):
    k = p[0]
    out.add(k)
    if k in ("and", "or"):
        out.add(f"{k}/{len(p[1])}")
        for q in p[1]:
            operators(q, out)
    elif k == "not":
        operators(p[1], out)


_SHARED = None


def shared_engines():
    """One iteration and one SQL engine that live for the whole process and see every expression of every case:
    engines are long-lived objects in real use, and conversion must not depend on what they converted before."""
    global _SHARED
    if _SHARED is None:
        from lsst.daf.relation import iteration, sql

        _SHARED = (iteration.Engine(name="shared-it"), sql.Engine(name="shared-sql"))
    return _SHARED


def check_shared(kind, lib_obj, fresh_values, ctx):
    """The long-lived engine must convert to a callable that agrees with the fresh engine's on every row."""
    it, _ = shared_engines()
    try:
        f = it.convert_column_expression(lib_obj) if kind == "expr" else it.convert_predicate(lib_obj)
        vals = [f(r) for r in ROWS]
    except Exception as ex:
        raise Violation("iteration-raised", f"long-lived engine: {type(ex).__name__}: {ex}; {ctx}", exc=ex, nondeterministic=True)
    for r, a, b in zip(ROWS, vals, fresh_values):
        if (a != b) if kind == "expr" else (bool(a) != bool(b)):
            raise Violation(
                "engine-state-leak",
                f"{ctx} on {(r[A], r[B], r[C])}: an engine that converted other expressions before gives {a}, a fresh engine gives {b}",
                nondeterministic=True,
            )


def run_case(case, stats):
    from lsst.daf.relation import iteration, sql

    t = table()
    avail = {A: t.c.a, B: t.c.b, C: t.c.c}
    it = iteration.Engine()
    sq = sql.Engine()
    conn = db()
    if case[0] == "expr":
        e = case[1]
        ctx = fmt_e(e)
        stats.c["kind:expr"] += 1
        le = lib_e(e)
        ref = {(r[A], r[B], r[C]): eval_e(e, r) for r in ROWS}
        f = it.convert_column_expression(le)
        check_shared("expr", le, [ref[(r[A], r[B], r[C])] for r in ROWS], ctx)
        for r in ROWS:
            try:
                got = f(r)
            except Exception as ex:
                raise Violation("iteration-raised", f"{type(ex).__name__}: {ex}; {ctx}", exc=ex)
            if got != ref[(r[A], r[B], r[C])]:
                raise Violation("iteration-differs", f"{ctx} on {(r[A], r[B], r[C])}: iteration {got} reference {ref[(r[A], r[B], r[C])]}")
        try:
            col = sq.convert_column_expression(le, avail)
            q = sa.select(t.c.a, t.c.b, t.c.c, sa.type_coerce(col, sa.Integer).label("v"))
            got_rows = conn.execute(q).fetchall()
        except Exception as ex:
            if "parser stack overflow" in str(ex):
                # a limit of the database (SQLite's parser gives up on ~30 nested parentheses), not of the translation
                stats.c["sql:database-nesting-limit"] += 1
                return
            raise Violation("sql-raised", f"{type(ex).__name__}: {str(ex)[:300]}; {ctx}", exc=ex)
        if len(got_rows) != len(ROWS):
            raise Violation("sql-differs", f"{ctx}: {len(got_rows)} rows returned")
        for a, b, c, v in got_rows:
            if v != ref[(a, b, c)]:
                raise Violation("sql-differs", f"{ctx} on {(a, b, c)}: SQL {v} reference {ref[(a, b, c)]}")
        if size_e(e) >= 2:
            stats.mark_nontrivial(codec.digest(case), lambda: describe(case), cls="expr")
        return
    p = case[1]
    ctx = fmt_p(p)
    stats.c["kind:pred"] += 1
    shapes = set()
    range_shape(p, shapes)
    for s in shapes:
        stats.c[f"range:{s}"] += 1
    ops = set()
    operators(p, ops)
    for o in ops:
        stats.c[f"op:{o}"] += 1
    lp = lib_p(p)
    ref_true = {(r[A], r[B], r[C]) for r in ROWS if eval_p(p, r)}
    try:
        f = it.convert_predicate(lp)
        it_true = {(r[A], r[B], r[C]) for r in ROWS if f(r)}
    except Exception as ex:
        raise Violation("iteration-raised", f"{type(ex).__name__}: {ex}; {ctx}", exc=ex)
    if it_true != ref_true:
        d = sorted(it_true ^ ref_true)[:3]
        raise Violation("iteration-differs", f"{ctx}: iteration engine and reference disagree on rows (a,b,c) {d}")
    check_shared("pred", lp, [(r[A], r[B], r[C]) in ref_true for r in ROWS], ctx)
    for how in ("convert_predicate", "convert_flattened_predicate"):
        try:
            if how == "convert_predicate":
                clause = sq.convert_predicate(lp, avail)
                q = sa.select(t.c.a, t.c.b, t.c.c).where(clause)
            else:
                clauses = sq.convert_flattened_predicate(lp, avail)
                q = sa.select(t.c.a, t.c.b, t.c.c)
                if clauses:
                    q = q.where(sa.and_(*clauses))
            sql_true = {tuple(r) for r in conn.execute(q).fetchall()}
        except Exception as ex:
            if "parser stack overflow" in str(ex):
                stats.c["sql:database-nesting-limit"] += 1
                continue
            raise Violation("sql-raised", f"{how}: {type(ex).__name__}: {str(ex)[:300]}; {ctx}", exc=ex)
        if sql_true != ref_true:
            extra = sorted(sql_true - ref_true)[:3]
            missing = sorted(ref_true - sql_true)[:3]
            raise Violation(
                "sql-differs",
                f"{ctx} via {how}: SQL {_sql(q)} selects wrong rows; wrongly selected (a,b,c) {extra}, wrongly rejected {missing}",
                shapes=sorted(shapes),
            )
    stats.c[f"truth:{'all' if len(ref_true) == len(ROWS) else 'none' if not ref_true else 'some'}"] += 1
    if size_p(p) >= 2:
        cls = "pred/" + (sorted(shapes)[0] if shapes else "no-range")
        stats.mark_nontrivial(codec.digest(case), lambda: describe(case), cls=cls)


def _sql(q):
    try:
        return str(q.compile(compile_kwargs={"literal_binds": True})).replace("\n", " ")[:400]
    except Exception:
        return str(q)[:400]


def describe(case):
    return {"expression": fmt_e(case[1])} if case[0] == "expr" else {"predicate": fmt_p(case[1])}


def attribute(case, v):
    return None
