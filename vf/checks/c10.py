"""C10 — payloads are write-once and materializations are computed at most once."""
from __future__ import annotations

from hypothesis import strategies as st

from vf.core import codec
from vf.core.base import Violation
from vf.core.env import FAULT, Env, InjectedFault, arm_fault, disarm_fault, take_rows
from vf.core.gen import Cfg, st_program
from vf.core.proc import make_processor
from vf.core.prog import BuildError, build_all, decode, describe_case, ev_list, fmt, kinds, lib_nodes, walk
from vf.checks.c02 import is_order_loss
from vf.runner import exc_sig

ID = "C10"
LEVEL = "exploration"
TECHNIQUE = "model-based stateful testing (Hypothesis-generated histories of attach_payload / execute / process over trees sharing materializations) against a write-once payload model and an iteration-count model on counting leaves"
LEVEL_TEXT = (
    "Bounded exploration of call histories over iteration-engine trees (two engines, transfers, chains, shared "
    "materialization nodes, counting leaf payloads): each history interleaves attach_payload on arbitrary nodes, "
    "execute() and Processor.process() on arbitrary sub-relations.  A model records the first non-None payload of every "
    "node (and on payload-less leaves); the implementation must agree with it after every step, attach_payload must raise TypeError exactly when the "
    "model says so, leaf iteration starts must stay within the number of root-to-leaf paths not crossing an already "
    "cached materialization, and each materialization name sees at most one completed hook call.  Fault injection: "
    "execute / process steps may run with an armed fault (the n-th row pulled from any leaf payload raises, or the n-th "
    "Processor hook call raises); the exception must propagate, every payload that appears on a node must hold that "
    "node's true rows (no truncated cache), and all invariants continue to hold for the rest of the history.  Lazy-marker "
    "steps: a user-defined marker constructed with the (possibly lazy) result of execute() as payload, a materialization "
    "on top, evaluated once by execute or process and then twice more: the later evaluations must not iterate any leaf."
    "  A fixed family of SQL-engine probes: operations built, compiled and run on a cached SQL materialization (or processed transfer) must leave its payload object and content untouched."
)
LEVEL_NOTE = "trusts: counting payloads; attached payloads carry the node's true rows so later results stay comparable with the reference evaluator; iteration engines only (SQL payload attachment is covered through Processor in C07)"
RULE = (
    "case = (program with materializations and transfers, history of 4-14 steps).  Invariants: node.payload is the "
    "model's payload forever once non-None; attach_payload raises TypeError iff the node is not a marker or already has a "
    "payload; per step, each leaf's iteration-start counter grows by <= #paths from the evaluated root to that leaf that "
    "do not cross a cached materialization (so a cached materialization's upstream is never evaluated again); <= 1 "
    "materialize / materializing-transfer hook call per materialization name; rows of every execute == ev_list; an evaluation interrupted by an injected exception (leaf iterator or Processor "
    "hook) propagates it, and any payload a node gains - then or ever - equals ev_list of that node.  "
    "Non-trivial: a materialization is evaluated and then evaluated or attached again; distinct by case digest."
)
ASSUMPTIONS = ["P1", "each execute step consumes its result exactly once"]


def cfg(tier):
    return Cfg(
        engines=(1, 2),
        binary=("chain",),
        markers=("mat", "mat", "xfer"),
        max_ops=7 if tier == "quick" else 12,
        p_binary=0.2,
        special_leaves=False,
        iter_variants=("plain", "custom"),
    )


def budget(tier):
    return 2500 if tier == "quick" else 40000


@st.composite
def st_case(draw, tier):
    universe, leaves, prog = draw(st_program(cfg(tier)))
    # make sure real materializations exist and are shared: wrap the program, optionally use it twice
    from vf.core.gen import st_unary_node
    from vf.core.prog import schema

    if prog[0] != "leaf" and draw(st.integers(0, 9)) < 2:
        # a materialization directly over a chain one of whose operands is a doomed leaf (the Processor prunes it)
        from vf.core.prog import engine_of

        cols = schema(prog, leaves)
        i = len(leaves)
        doomed = (f"L{i}", tuple(sorted(cols, key=lambda t: t.qualified_name)), (), engine_of(prog, leaves), "doomed", (0, 0), "plain")
        leaves = tuple(leaves) + (doomed,)
        pair = (("leaf", i), prog) if draw(st.booleans()) else (prog, ("leaf", i))
        prog = ("chain",) + pair
    if draw(st.integers(0, 9)) < 2:
        # one transfer object used twice in the tree: bare, and directly below a materialization (either order)
        from vf.core.prog import engine_of

        here = engine_of(prog, leaves)
        t = ("xfer", prog, 2 if here == 1 else 1)
        pair = (t, ("mat", t, "mshared")) if draw(st.booleans()) else (("mat", t, "mshared"), t)
        prog = ("chain",) + pair
    elif prog[0] not in ("leaf", "mat") and draw(st.integers(0, 9)) < 7:
        m = ("mat", prog, "mroot")
        shape = draw(st.sampled_from(["plain", "op", "twice", "twice-op"]))
        prog = m
        if shape in ("twice", "twice-op"):
            other = draw(st_unary_node(m, schema(m, leaves), universe, ("sel", "slice", "dedup", "sort"), cfg(tier))) or m
            prog = ("chain", m, other)
        if shape in ("op", "twice-op"):
            prog = draw(st_unary_node(prog, schema(prog, leaves), universe, cfg(tier).unary, cfg(tier))) or prog
    steps = draw(
        st.lists(
            st.tuples(
                st.sampled_from(["execute", "execute", "process", "attach", "attach", "fault-execute", "fault-process", "lazy-marker"]),
                st.integers(0, 9999),
            ),
            min_size=4,
            max_size=10 if tier == "quick" else 14,
        )
    )
    if prog[0] == "chain" and prog[1][0] != "leaf" and (prog[1] is prog[2][1] or prog[2] is prog[1][1]):
        # shared-transfer shape: make sure the whole tree is processed before anything else evaluates the
        # materialization, and that it is evaluated again afterwards
        n = len(list(walk(prog)))
        steps = [("process", n - 1)] + steps + [("execute", n - 1)]
    return (universe, leaves, prog, tuple(steps))


def strategy(tier):
    return st_case(tier)


def paths_uncached(rel, env, cached, counts):
    """Add to counts[leaf index] the number of paths from rel to each leaf not crossing a cached marker; marks
    materializations met as cached (they are evaluated once by this evaluation)."""
    from lsst.daf.relation import BinaryOperationRelation, LeafRelation, MarkerRelation, Materialization, UnaryOperationRelation

    if isinstance(rel, LeafRelation):
        i = env.leaf_index(rel)
        counts[i] = counts.get(i, 0) + 1
        return
    if isinstance(rel, MarkerRelation):
        if rel.payload is not None:
            # materialized() hands an already materialized payload through unchanged: the cached object may *be* a
            # leaf's payload, in which case iterating the cache counts on that leaf
            for i, p in enumerate(env.payloads):
                if p is rel.payload:
                    counts[i] = counts.get(i, 0) + 1
            return
        if id(rel) in cached:
            # a second path through a materialization evaluated earlier in this same evaluation: only a pure
            # pass-through (markers down to a leaf, whose payload object becomes the cache) touches a leaf again
            # ... or a target that the Processor prunes down to such a pass-through: a chain with a statically empty
            # operand is replaced by its other operand, so materialize(chain(empty, leaf)) caches the leaf's own payload
            from lsst.daf.relation import Chain

            t = rel
            while True:
                if isinstance(t, MarkerRelation):
                    t = t.target
                elif isinstance(t, BinaryOperationRelation) and isinstance(t.operation, Chain) and (t.lhs.max_rows == 0 or t.rhs.max_rows == 0):
                    t = t.rhs if t.lhs.max_rows == 0 else t.lhs
                else:
                    break
            if isinstance(t, LeafRelation):
                i = env.leaf_index(t)
                counts[i] = counts.get(i, 0) + 1
            return
        if isinstance(rel, Materialization):
            cached.add(id(rel))
        paths_uncached(rel.target, env, cached, counts)
        return
    if isinstance(rel, UnaryOperationRelation):
        paths_uncached(rel.target, env, cached, counts)
        return
    if isinstance(rel, BinaryOperationRelation):
        paths_uncached(rel.lhs, env, cached, counts)
        paths_uncached(rel.rhs, env, cached, counts)


def passthrough_paths(rel, env, counts):
    from lsst.daf.relation import BinaryOperationRelation, MarkerRelation, UnaryOperationRelation

    if isinstance(rel, MarkerRelation):
        if rel.payload is not None:
            for i, p in enumerate(env.payloads):
                if p is rel.payload:
                    counts[i] = counts.get(i, 0) + 1
            return
        passthrough_paths(rel.target, env, counts)
    elif isinstance(rel, UnaryOperationRelation):
        passthrough_paths(rel.target, env, counts)
    elif isinstance(rel, BinaryOperationRelation):
        passthrough_paths(rel.lhs, env, counts)
        passthrough_paths(rel.rhs, env, counts)


def reached_materializations(rel):
    """Materializations iteration.Engine.execute(rel) has to evaluate: the recursion stops at statically trivial
    relations (documented short-cuts) and at relations that already carry a payload."""
    from lsst.daf.relation import BinaryOperationRelation, MarkerRelation, Materialization, UnaryOperationRelation

    out, stack, seen = [], [rel], set()
    while stack:
        r = stack.pop()
        if id(r) in seen or r.max_rows == 0 or r.is_join_identity or r.payload is not None:
            continue
        seen.add(id(r))
        if isinstance(r, Materialization):
            out.append(r)
        if isinstance(r, (UnaryOperationRelation, MarkerRelation)):
            stack.append(r.target)
        elif isinstance(r, BinaryOperationRelation):
            stack.extend([r.rhs, r.lhs])
    return out


def c07_visited(rel, had_payload):
    from vf.checks.c07 import visited_materializations

    return list(visited_materializations(rel, had_payload))


def injected(e):
    seen = set()
    while e is not None and id(e) not in seen:
        if isinstance(e, InjectedFault):
            return True
        seen.add(id(e))
        e = e.__cause__ or e.__context__
    return False


def run_case(case, stats):
    from lsst.daf.relation import ColumnError, EngineError, MarkerRelation, Materialization, iteration

    universe, leaves, prog, steps = case
    memo = {}
    ev_list(prog, leaves, check_fd=True, memo=memo)
    env = Env(leaves, counting=True)
    try:
        rels = {}
        try:
            build_all(prog, env, rels)
        except BuildError as b:
            if not (is_order_loss(b.exc) or isinstance(b.exc, (ColumnError, EngineError))):
                raise Violation("build-raised", f"{fmt(b.node, leaves)}: {type(b.exc).__name__}: {b.exc}", sig=exc_sig(b.exc))
            return
        root = rels[id(prog)]
        prefixes = [(n, rels[id(n)]) for n in walk(prog)]
        nodes = []
        seen = set()
        for n in lib_nodes(root):
            if id(n) not in seen:
                seen.add(id(n))
                nodes.append(n)
        model = {id(n): n.payload for n in nodes}
        # in half of the histories transfers that are not materialized hand over the source engine's lazy rows
        lazy_transfers = int(codec.digest(case)[:2], 16) % 2 == 1
        proc = make_processor(env, lazy_transfers=lazy_transfers)
        hook_calls = {}
        mat_evaluated = set()
        revisited = False

        def starts():
            return {i: env.payloads[i].iter_starts for i in range(len(leaves)) if env.payloads[i] is not None}

        def sync_model(step):
            for n in nodes:
                old = model[id(n)]
                if old is None:
                    if n.payload is not None:
                        model[id(n)] = n.payload
                        if isinstance(n, Materialization):
                            mat_evaluated.add(id(n))
                        # a payload that appears on a node is that node's content from now on: it must hold the node's
                        # true rows (in particular after an evaluation that was cut short by an injected fault)
                        if isinstance(n.payload, iteration.RowIterable):
                            try:
                                want = ev_list(decode(n, env), leaves, check_fd=True)
                            except Exception:
                                continue
                            have = take_rows(n.payload)
                            if have != want:
                                raise Violation(
                                    "cached-payload-wrong",
                                    f"after {step}: {type(n).__name__} {str(n)[:120]} carries a payload with rows {have[:6]} ({len(have)}); its content is {want[:6]} ({len(want)})",
                                    step=step.split(" ")[0],
                                )
                elif n.payload is not old:
                    raise Violation(
                        "payload-replaced",
                        f"payload of {type(n).__name__} {str(n)[:160]} was {'cleared' if n.payload is None else 'replaced'} by step {step}",
                        step=step.split(" ")[0],
                    )

        for kind, arg in steps:
            if kind == "attach" and arg % 5 == 0:
                # relations that are not markers and happen to have no payload: a leaf constructed without one, and the
                # doomed / join-identity leaves of an engine that keeps the base-class (None) payloads for them
                from lsst.daf.relation import GenericConcreteEngine, LeafRelation

                some = nodes[arg % len(nodes)]

                class Bare(GenericConcreteEngine):
                    pass

                bare = Bare(name="bare")
                probes = [
                    ("LeafRelation(payload=None)", LeafRelation(some.engine, frozenset(some.columns), None, name="nopayload", min_rows=0, max_rows=None)),
                    ("doomed leaf of a GenericConcreteEngine subclass", bare.make_doomed_relation(set(some.columns), ["doomed"])),
                    ("join-identity leaf of a GenericConcreteEngine subclass", bare.make_join_identity_relation()),
                ]
                for what, leafrel in probes:
                    if leafrel.payload is not None:
                        continue
                    try:
                        leafrel.attach_payload(iteration.RowSequence([]))
                    except TypeError:
                        stats.c["attach:rejected-on-payloadless-leaf"] += 1
                    except Exception as e:
                        raise Violation("attach-wrong-exception", f"attach_payload on {what}: raised {type(e).__name__}: {e}", sig=exc_sig(e))
                    else:
                        raise Violation("attach-accepted", f"attach_payload on {what}: accepted although the relation is not a marker", marker=False)
            if kind == "attach":
                n = nodes[arg % len(nodes)]
                try:
                    sub = decode(n, env)
                    rows = ev_list(sub, leaves, check_fd=True)
                except Exception:
                    continue
                new_payload = iteration.RowSequence([dict(r) for r in rows])
                must_raise = not isinstance(n, MarkerRelation) or model[id(n)] is not None
                label = f"attach_payload on {type(n).__name__} {str(n)[:100]}"
                if isinstance(n, Materialization) and model[id(n)] is not None:
                    revisited = True
                try:
                    n.attach_payload(new_payload)
                except TypeError:
                    if not must_raise:
                        raise Violation("attach-wrongly-rejected", f"{label}: TypeError although the relation is a marker without payload")
                    stats.c["attach:rejected"] += 1
                except Exception as e:
                    raise Violation("attach-wrong-exception", f"{label}: raised {type(e).__name__}: {e}", sig=exc_sig(e))
                else:
                    if must_raise:
                        raise Violation(
                            "attach-accepted",
                            f"{label}: accepted although the relation {'is not a marker' if not isinstance(n, MarkerRelation) else 'already has a payload'}",
                            marker=isinstance(n, MarkerRelation),
                        )
                    stats.c["attach:accepted"] += 1
                    model[id(n)] = new_payload
                    if isinstance(n, Materialization):
                        mat_evaluated.add(id(n))
                sync_model(label)
                continue
            pnode, rel = prefixes[arg % len(prefixes)]
            if kind == "lazy-marker":
                # a user-defined marker (extension point) constructed with a payload that is whatever execute() returned
                # - possibly a lazy iterable that re-evaluates its upstream on every iteration - and a materialization
                # on top: once that materialization has been evaluated (by execute or by process), evaluating it again
                # must not touch any leaf (other than a leaf whose payload object *is* the cache)
                from vf.core.prog import note_marker

                try:
                    marked = note_marker()(target=rel, payload=rel.engine.execute(rel))
                    mat = marked.materialized(name=f"lazy{arg}")
                except Exception as e:
                    raise Violation("evaluation-raised", f"marker with payload over {str(rel)[:100]}: {type(e).__name__}: {str(e)[:200]}", sig=exc_sig(e))
                expected = memo[id(pnode)]
                via = "process" if (arg // 97) % 2 else "execute"
                label = f"lazy-marker/{via} {str(mat)[:100]}"
                try:
                    if via == "process":
                        first = proc.process(mat)
                        got = take_rows(first.engine.execute(first))
                    else:
                        got = take_rows(mat.engine.execute(mat))
                    if got != expected:
                        raise Violation("rows-differ", f"{label}: expected {expected[:6]} got {got[:6]}", step="lazy-marker")
                    if mat.payload is None and mat.max_rows != 0 and not mat.is_join_identity:
                        raise Violation("materialization-without-payload", f"{label}: the materialization has no payload after being evaluated", step="lazy-marker")
                    for again in (1, 2):
                        before = starts()
                        got = take_rows(mat.engine.execute(mat))
                        after = starts()
                        if got != expected:
                            raise Violation("rows-differ", f"{label}, evaluation #{again + 1}: expected {expected[:6]} got {got[:6]}", step="lazy-marker")
                        for i in before:
                            allowed = 1 if env.payloads[i] is mat.payload else 0
                            if after[i] - before[i] > allowed:
                                raise Violation(
                                    "upstream-re-evaluated",
                                    f"{label}: evaluation #{again + 1} of the already evaluated materialization iterated leaf {leaves[i][0]} {after[i] - before[i]} time(s); its cache is a {type(mat.payload).__name__}",
                                    step="lazy-marker",
                                )
                except Violation:
                    raise
                except Exception as e:
                    raise Violation("evaluation-raised", f"{label}: {type(e).__name__}: {str(e)[:300]}", sig=exc_sig(e))
                stats.c[f"step:lazy-marker/{via}"] += 1
                revisited = True
                sync_model(label)
                continue
            faulty = kind.startswith("fault-")
            fault_desc = ""
            if faulty:
                # fault injection: either the n-th row pulled from any leaf payload raises, or (process only) the n-th
                # Processor hook call raises before doing anything.  The interrupted call must leave the write-once
                # model intact, cache only complete results, and a later evaluation must still be right.
                kind = kind.split("-", 1)[1]
                hook_no = (arg // 400) % 4 if kind == "process" else 0
                if hook_no:
                    proc.fail_at = hook_no - 1
                    proc.fault_fired = False
                    fault_desc = f" [fault: Processor hook call #{hook_no - 1} raises]"
                else:
                    arm_fault((arg // 61) % 6)
                    fault_desc = f" [fault: leaf row pull #{(arg // 61) % 6} raises]"
            label = f"{kind} {str(rel)[:100]}{fault_desc}"
            bound = {}
            touched_mats = [n for n in lib_nodes(rel) if isinstance(n, Materialization)]
            if any(id(n) in mat_evaluated for n in touched_mats):
                revisited = True
            paths_uncached(rel, env, set(), bound)
            had_payload_before = {id(n) for n in lib_nodes(rel) if getattr(n, "payload", None) is not None}
            before = starts()
            expected = memo[id(pnode)]
            nlog = len(proc.log)
            got = None
            try:
                if kind == "execute":
                    got = take_rows(rel.engine.execute(rel))
                else:
                    processed = proc.process(rel)
                    got = take_rows(processed.engine.execute(processed))
            except Exception as e:
                if not (faulty and injected(e)):
                    raise Violation("evaluation-raised", f"{label}: {type(e).__name__}: {str(e)[:300]}", sig=exc_sig(e))
                stats.c[f"fault:{kind}:interrupted"] += 1
                interrupted = True
            finally:
                fired = FAULT["fired"] or proc.fault_fired
                disarm_fault()
                FAULT["fired"] = False
                proc.fail_at = None
                proc.fault_fired = False
                for idx, (hook, src, dest, name) in enumerate(proc.log[nlog:], nlog):
                    if name is not None and idx in proc.completed:
                        hook_calls[name] = hook_calls.get(name, 0) + 1
            if faulty and got is not None:
                stats.c[f"fault:{kind}:{'swallowed' if fired else 'not-reached'}"] += 1
                if fired:
                    # the fault was raised inside the library call and the call still returned rows
                    raise Violation("fault-swallowed", f"{label}: the injected exception did not propagate; rows returned {got[:6]}", step=kind)
            if got is not None and not faulty:
                # an evaluation that completed has evaluated - and must have cached - every materialization it reached
                for m in (reached_materializations(rel) if kind == "execute" else c07_visited(rel, had_payload_before)):
                    if m.payload is None:
                        raise Violation(
                            "materialization-without-payload",
                            f"{label}: materialization {m.name!r} was evaluated by this call but has no payload afterwards",
                            step=kind,
                        )
            if got is not None and got != expected:
                raise Violation("rows-differ", f"{label}: expected {expected[:6]} got {got[:6]} (program {fmt(pnode, leaves)})", step=kind)
            after = starts()
            # caches that *are* a leaf's payload object (materialized() hands materialized payloads through, and the
            # Processor may prune a chain down to a leaf): every path through such a marker iterates that leaf
            passthrough_paths(rel, env, bound)
            for i in before:
                grew = after[i] - before[i]
                if grew > bound.get(i, 0):
                    raise Violation(
                        "upstream-re-evaluated",
                        f"{label}: leaf {leaves[i][0]} was iterated {grew} more time(s); only {bound.get(i, 0)} path(s) reach it without crossing a cached materialization",
                        step=kind,
                    )
            for name, cnt in hook_calls.items():
                if cnt > 1:
                    raise Violation("materialization-recomputed", f"{cnt} materialize/transfer hook calls for materialization {name!r}; last step {label}", step=kind)
            stats.c[f"step:{kind}"] += 1
            sync_model(label)
            if faulty and got is None and any(id(n) in mat_evaluated for n in touched_mats):
                revisited = True
        if revisited:
            stats.mark_nontrivial(codec.digest(case), lambda: describe(case), cls="+".join(sorted({k for k, _ in steps})))
    finally:
        env.close()


EXHAUSTIVE_NOTE = (
    "SQL side of the write-once rule: a fixed family of SQL trees with a materialization evaluated by the real Processor; "
    "every downstream operation of a list (selections, calculations, sort / slice / deduplication, join, chain) is built on "
    "the cached materialization, compiled and run; the materialization's payload must stay the identical object with unchanged "
    "content and the materialization must keep returning the first rows"
)


def exhaustive(tier, stats, shard, nshards, run):
    """Not an enumeration of cases of the strategy: a fixed family of probes on the SQL engine (see EXHAUSTIVE_NOTE)."""
    if shard != 0:
        return
    from lsst.daf.relation import ColumnExpression, SortTerm

    from vf.core.fp import payload_fp
    from vf.core.matrix import A, B, C, D, UNIVERSE
    from vf.core.prog import multiset
    from vf.core.sqlh import compile_and_run

    rows0 = ((2, 1, 0), (0, 2, 1), (1, 0, 2), (2, 0, 1), (0, 1, 2), (1, 1, 1))
    leaves = (
        ("L0", (A, B, C), rows0, 0, "data", (len(rows0), len(rows0)), "plain"),
        ("L1", (A, D), ((0, 7), (1, 8), (2, 9)), 0, "data", (3, 3), "renamed"),
        ("L2", (A, B, C), rows0[:3], 1, "data", (3, 3), "plain"),
    )
    ra, rb, rc = (ColumnExpression.reference(t) for t in (A, B, C))
    lit = ColumnExpression.literal
    downstream = {
        "selection a >= 1": lambda m, env: m.with_rows_satisfying(ra.ge(lit(1))),
        "selection b = 0, then selection a >= 1": lambda m, env: m.with_rows_satisfying(rb.eq(lit(0))).with_rows_satisfying(ra.ge(lit(1))),
        "calculation d = a + b": lambda m, env: m.with_calculated_column(D, ra.method("__add__", rb)),
        "calculation d = a + b, then selection": lambda m, env: m.with_calculated_column(D, ra.method("__add__", rb)).with_rows_satisfying(rc.le(lit(1))),
        "sort, slice": lambda m, env: m.sorted([SortTerm(ra), SortTerm(rb), SortTerm(rc)])[1:3],
        "deduplication after projection": lambda m, env: m.with_only_columns({A}).without_duplicates(),
        "join with another leaf, selection on top": lambda m, env: m.join(env.leafrels[1]).with_rows_satisfying(ra.ge(lit(1))),
        "join with a selection over another leaf (the other operand brings WHERE terms)": lambda m, env: m.join(env.leafrels[1].with_rows_satisfying(ColumnExpression.reference(D).le(lit(8)))),
        "join with a selection over another leaf, as right operand": lambda m, env: env.leafrels[1].with_rows_satisfying(ColumnExpression.reference(D).le(lit(8))).join(m),
        "selection, then chain with the materialization itself": lambda m, env: m.with_rows_satisfying(ra.ge(lit(2))).chain(m),
    }
    upstream = {
        "materialize(selection over a SQL leaf)": lambda env: env.leafrels[0].with_rows_satisfying(rc.ge(lit(0))).materialized(name="pm0"),
        "materialize(iteration leaf transferred into the SQL engine)": lambda env: env.leafrels[2].transferred_to(env.sql).materialized(name="pm1"),
        "selection over a transfer into the SQL engine (processed transfer carries the payload)": lambda env: env.leafrels[2].transferred_to(env.sql),
    }
    for uname, up in upstream.items():
        for dname, down in downstream.items():
            env = Env(leaves)
            try:
                proc = make_processor(env)
                what = f"{uname}; then, on the cached node: {dname}"
                try:
                    node = proc.process(up(env))
                    holder = node
                    while holder.payload is None and hasattr(holder, "target"):
                        holder = holder.target
                    if holder.payload is None:
                        raise Violation("no-payload", f"process() left no payload on {node}; {what}")
                    payload, before = holder.payload, payload_fp(holder.payload)
                    first = compile_and_run(env, node)[0][0]
                    for _ in range(2):  # built, compiled and run twice
                        rel = down(node, env)
                        compile_and_run(env, rel)
                    again = compile_and_run(env, node)[0][0]
                except Violation:
                    raise
                except Exception as e:
                    raise Violation("probe-raised", f"{type(e).__name__}: {str(e)[:300]}; {what}", exc=e)
                if holder.payload is not payload:
                    raise Violation("payload-replaced", f"the payload object of {holder} was replaced; {what}")
                if payload_fp(holder.payload) != before:
                    raise Violation("cached-payload-changed", f"content of the cached payload of {str(holder)[:120]} changed: {before} -> {payload_fp(holder.payload)}; {what}")
                if multiset(again) != multiset(first):
                    raise Violation("cached-rows-changed", f"the cached node returned {first} before and {again} after; {what}")
                stats.c["sql-materialization-probes"] += 1
            finally:
                env.close()


def describe(case):
    universe, leaves, prog, steps = case
    return describe_case(universe, leaves, prog, steps=[f"{k}:{a}" for k, a in steps])


def attribute(case, v):
    return None
