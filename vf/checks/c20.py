"""C20 — ill-formed requests are rejected at the factory call with the documented error."""
from __future__ import annotations

from hypothesis import strategies as st

from vf.core import codec
from vf.core.base import Violation
from vf.core.env import Env
from vf.core.expr import fmt_e, fmt_p, lib_e, lib_p, st_expr, st_pred
from vf.core.fp import fingerprint
from vf.core.gen import Cfg, st_program
from vf.core.prog import BuildError, build_all, describe_case, engine_of, fmt, kinds, leaf_indices, n_ops, schema, walk
from vf.core.tags import sorted_tags
from vf.checks.c02 import is_order_loss
from vf.runner import exc_sig

ID = "C20"
LEVEL = "exploration"
TECHNIQUE = "property-based fault injection (Hypothesis): a well-typed multi-engine program plus one ill-forming edit from a catalogue, issued on any intermediate relation with any preferred-engine options; exception class and fingerprints checked"
LEVEL_TEXT = (
    "Bounded exploration: generated well-typed programs over the SQL engine and two iteration engines; at a drawn "
    "intermediate relation one request is made ill-formed by exactly one edit (missing column in a calculation / sort "
    "term / selection / join predicate / projection, re-used calculation tag, chain operands with different columns or "
    "engines, join across engines with neither backtracking nor transfer (or with default options, where only EngineError / "
    "ColumnError or a well-formed tree holding both operands' columns is acceptable), expression unsupported by the engine (bare, nested below other functions, or inside AND / OR / NOT of a selection predicate), slice "
    "negative / reversed / stepped / not a slice) and issued with drawn preferred-engine options.  The call must raise "
    "the documented class and leave every existing relation's fingerprint unchanged."
    "  Edits also cover a user-defined operation whose required column is missing and stepped slices in every "
    "spelling of the bounds ([::2], [0::3], [:3:2], ...)."
)
LEVEL_NOTE = "trusts: fingerprint() covers structure, columns, bounds and leaf payload content; the edit catalogue is sampled, not exhaustive over positions"
RULE = (
    "case = (program, index of the target relation, edit, options).  Oracle: the edited call raises ColumnError / "
    "EngineError / ValueError or TypeError (slices) as documented for that edit - no other class, no relation "
    "returned - and fingerprints of all relations built before the call are unchanged.  Non-trivial: the edited call "
    "sits >= 1 operation above a leaf or uses a non-default option; distinct by case digest; classes per edit kind."
)
ASSUMPTIONS = ["exactly one fault per request", "join-identity operands are excluded from the cross-engine edits (documented elision)"]

EDITS = (
    "calc-missing-column",
    "calc-existing-tag",
    "sort-missing-column",
    "sel-missing-column",
    "proj-missing-column",
    "join-pred-missing-column",
    "join-pred-unsupported-expression",
    "chain-different-columns",
    "chain-different-engines",
    "join-different-engines",
    "join-different-engines-default-options",
    "calc-unsupported-expression",
    "sort-unsupported-expression",
    "sel-unsupported-expression",
    "sort-unsupported-equal-to-existing",
    "sel-reuses-join-predicate",
    "sel-reuses-join-predicate",
    "custom-op-missing-column",
    "slice-negative",
    "slice-reversed",
    "slice-stepped",
    "slice-not-a-slice",
)


def cfg(tier):
    return Cfg(
        engines=(0, 1, 2),
        binary=("chain", "join"),
        markers=("mat", "xfer", "xfer"),
        max_ops=6 if tier == "quick" else 10,
        p_binary=0.25,
        p_join_pred=70,
        avoid=frozenset(["D9", "D10", "D11"]),
        max_leaves=3,
    )


def budget(tier):
    return 5000 if tier == "quick" else 80000


@st.composite
def st_case(draw, tier):
    universe, leaves, prog = draw(st_program(cfg(tier)))
    nodes = list(walk(prog))
    idx = draw(st.integers(0, len(nodes) - 1))
    edit = draw(st.sampled_from(EDITS))
    opts = {}
    if draw(st.booleans()):
        opts = dict(
            preferred=draw(st.integers(0, 2)),
            backtrack=draw(st.booleans()),
            transfer=draw(st.booleans()),
            require_preferred_engine=draw(st.booleans()),
        )
    seed_expr = draw(st_expr(list(universe), 1, need_ref=True))
    pick = draw(st.integers(0, 10**6))
    return (universe, leaves, prog, idx, edit, tuple(sorted(opts.items())), seed_expr, pick)


def strategy(tier):
    return st_case(tier)


class Skip(Exception):
    pass


def lib_opts(opts, env):
    o = dict(opts)
    if not o:
        return {}
    return dict(
        preferred_engine=env.engines[o["preferred"]],
        backtrack=o["backtrack"],
        transfer=o["transfer"],
        require_preferred_engine=o["require_preferred_engine"],
    )


_CUSTOM_OPS = None


def make_request(edit, rel, node, env, leaves, universe, opts, seed_expr, pick, rels, prog):
    """Returns (callable issuing the ill-formed request, tuple of acceptable exception classes, description)."""
    from lsst.daf.relation import ColumnError, ColumnExpression, EngineError, Slice, SortTerm, iteration, sql

    cols = set(rel.columns)
    missing = [t for t in universe if t not in cols]
    o = lib_opts(opts, env)
    kind_here = "sql" if isinstance(rel.engine, sql.Engine) else "it"

    def some(xs):
        xs = sorted_tags(xs)
        return xs[pick % len(xs)]

    if edit == "calc-missing-column":
        free = [t for t in missing]
        if len(free) < 2:
            raise Skip()
        tag, need = free[0], free[1]
        e = ("add", ("ref", need), ("ref", some(cols))) if cols else ("ref", need)
        return (lambda: rel.with_calculated_column(tag, lib_e(e), **o)), (ColumnError,), f"calc {tag}={fmt_e(e)}"
    if edit == "calc-existing-tag":
        if not cols:
            raise Skip()
        tag = some(cols)
        e = ("ref", some(cols))
        return (lambda: rel.with_calculated_column(tag, lib_e(e), **o)), (ColumnError,), f"calc {tag}={fmt_e(e)} (tag exists)"
    if edit == "sort-missing-column":
        if not missing:
            raise Skip()
        terms = [SortTerm(lib_e(("ref", t)), True) for t in sorted_tags(cols)[:1]] + [SortTerm(lib_e(("ref", some(missing))), False)]
        return (lambda: rel.sorted(terms, **o)), (ColumnError,), f"sort with missing {some(missing)}"
    if edit == "sel-missing-column":
        if not missing:
            raise Skip()
        p = ("gt", ("ref", some(missing)), ("lit", 0))
        if cols:
            p = ("and", (("ge", ("ref", some(cols)), ("lit", -9)), p))
        return (lambda: rel.with_rows_satisfying(lib_p(p), **o)), (ColumnError,), f"sel {fmt_p(p)}"
    if edit == "custom-op-missing-column":
        # a user-defined operation (extension points RowFilter / Reordering) that declares, through columns_required, "the
        # columns the target relation must have in order for this operation to be applied to it"
        if not missing or kind_here != "it" or (o and isinstance(o["preferred_engine"], sql.Engine)):
            raise Skip()  # (user-defined operations are only implemented by the harness's iteration engines)
        import dataclasses as _dc

        from lsst.daf.relation import ColumnTag, Reordering, RowFilter

        need = some(missing)
        global _CUSTOM_OPS
        if _CUSTOM_OPS is None:

            @_dc.dataclass(frozen=True)
            class NeedsFilter(RowFilter):
                tag: ColumnTag

                def __str__(self):
                    return f"needs[{self.tag}]"

                @property
                def columns_required(self):
                    return frozenset({self.tag})

                @property
                def is_order_dependent(self):
                    return False

                @property
                def is_empty_invariant(self):
                    return False

                def applied_max_rows(self, target):
                    return target.max_rows

            @_dc.dataclass(frozen=True)
            class NeedsOrder(Reordering):
                tag: ColumnTag

                def __str__(self):
                    return f"orderby[{self.tag}]"

                @property
                def columns_required(self):
                    return frozenset({self.tag})

            _CUSTOM_OPS = (NeedsFilter, NeedsOrder)
        op = _CUSTOM_OPS[pick % 2](need)
        return (lambda: op.apply(rel, **o)), (ColumnError,), f"user-defined {type(op).__name__} requiring missing {need}"
    if edit == "proj-missing-column":
        if not missing:
            raise Skip()
        want = set(sorted_tags(cols)[:1]) | {some(missing)}
        return (lambda: rel.with_only_columns(want, **o)), (ColumnError,), f"proj {want}"
    if edit in ("join-pred-missing-column", "join-pred-unsupported-expression", "join-different-engines", "join-different-engines-default-options", "chain-different-engines", "chain-different-columns"):
        # another relation of the program as the second operand
        others = [(n, rels[id(n)]) for n in walk(prog) if id(n) in rels and rels[id(n)] is not rel]
        used = leaf_indices(prog)
        others += [(("leaf", i), env.leafrels[i]) for i in range(len(leaves)) if i not in used]
        if edit == "join-pred-missing-column":
            cands = [(n, r) for n, r in others if r.engine is rel.engine and not (leaf_indices(n) & leaf_indices(node))]
            cands = [(n, r) for n, r in cands if all(t.is_key for t in set(r.columns) & cols)]
            absent = lambda r: [t for t in universe if t not in cols and t not in r.columns]  # noqa: E731
            cands = [(n, r) for n, r in cands if absent(r)]
            if not cands:
                raise Skip()
            n2, r2 = cands[pick % len(cands)]
            p = ("eq", ("ref", absent(r2)[0]), ("lit", 1))
            jo = {k: v for k, v in o.items() if k in ("backtrack", "transfer")}
            return (lambda: rel.join(r2, lib_p(p), **jo)), (ColumnError,), f"join on {fmt_p(p)}"
        if edit == "join-pred-unsupported-expression":
            # both operands in one engine, all columns present: the predicate calls a function that this kind of engine
            # does not support (restricted to the other kind, or to no engine at all), bare or below a connective
            cands = [(n, r) for n, r in others if r.engine is rel.engine and not (leaf_indices(n) & leaf_indices(node))]
            cands = [(n, r) for n, r in cands if all(t.is_key for t in set(r.columns) & cols)]
            cands = [(n, r) for n, r in cands if (set(r.columns) | cols) and not r.is_join_identity and not rel.is_join_identity]
            if not cands:
                raise Skip()
            n2, r2 = cands[pick % len(cands)]
            allc = sorted_tags(set(r2.columns) | cols)
            other_kind = ("it" if kind_here == "sql" else "sql") if pick % 4 else "none"
            bad = ("ge", ("rneg", other_kind, ("ref", allc[(pick // 3) % len(allc)])), ("lit", 0))
            fine = ("ge", ("ref", allc[0]), ("lit", -9))
            p = (bad, ("and", (fine, bad)), ("or", (bad, fine)), ("not", bad))[(pick // 11) % 4]
            jo = {k: v for k, v in o.items() if k in ("backtrack", "transfer")}
            return (lambda: rel.join(r2, lib_p(p, raw_connectives=bool(pick % 2)), **jo)), (EngineError,), f"join on {fmt_p(p)} in {rel.engine}"
        if edit == "join-different-engines":
            cands = [(n, r) for n, r in others if r.engine is not rel.engine and not r.is_join_identity and not rel.is_join_identity]
            cands = [(n, r) for n, r in cands if all(t.is_key for t in set(r.columns) & cols)]
            if not cands:
                raise Skip()
            n2, r2 = cands[pick % len(cands)]
            return (lambda: rel.join(r2, backtrack=False, transfer=False)), (EngineError,), f"join across engines {rel.engine}/{r2.engine}"
        if edit == "join-different-engines-default-options":
            # no transfer allowed; backtracking may legitimately move the join to where the engines agree - then the
            # result is a well-formed tree with the columns of both operands; anything else must be a refusal
            cands = [(n, r) for n, r in others if r.engine is not rel.engine and not r.is_join_identity and not rel.is_join_identity]
            cands = [(n, r) for n, r in cands if all(t.is_key for t in set(r.columns) & cols)]
            if not cands:
                raise Skip()
            n2, r2 = cands[pick % len(cands)]

            def call():
                out = rel.join(r2, transfer=False)
                if set(out.columns) != cols | set(r2.columns) or out is rel or out is r2:
                    raise Violation(
                        "ill-formed-request-accepted",
                        f"join across engines {rel.engine}/{r2.engine} without transfer returned {str(out)[:200]} with columns {set(out.columns)}, "
                        f"not the join's columns {cols | set(r2.columns)}; lhs {str(rel)[:160]}; rhs {str(r2)[:160]}",
                        edit=edit,
                    )
                return out

            return call, (EngineError, ColumnError, "wellformed"), f"join across engines {rel.engine}/{r2.engine} (default options, no transfer)"
        if edit == "chain-different-engines":
            cands = [(n, r) for n, r in others if r.engine is not rel.engine and set(r.columns) == cols]
            if not cands:
                raise Skip()
            n2, r2 = cands[pick % len(cands)]
            return (lambda: rel.chain(r2)), (EngineError,), f"chain across engines {rel.engine}/{r2.engine}"
        cands = [(n, r) for n, r in others if r.engine is rel.engine and set(r.columns) != cols]
        if not cands:
            raise Skip()
        n2, r2 = cands[pick % len(cands)]
        return (lambda: rel.chain(r2)), (ColumnError,), f"chain with columns {set(r2.columns)} vs {cols}"
    if edit == "sel-reuses-join-predicate":
        # the predicate *object* of a join built earlier in the program, applied as a selection where a column is missing
        from vf.core.expr import cols_p

        def has_literal(q):
            k = q[0]
            if k == "plit" or (k in ("and", "or") and not q[1]):
                return True
            if k in ("and", "or"):
                return any(has_literal(x) for x in q[1])
            return k == "not" and has_literal(q[1])

        # only predicates that cannot fold to a constant: a trivially true selection is a documented no-op
        joins = [n for n in walk(prog) if n[0] == "join" and n[3] is not None and id(n) in rels and cols_p(n[3]) and not has_literal(n[3])]
        cands = []
        for j in joins:
            need = cols_p(j[3])
            for n2 in walk(prog):
                r2 = rels.get(id(n2))
                if r2 is not None and not need <= set(r2.columns):
                    cands.append((j, r2, n2))
        if not cands:
            raise Skip()
        j, r2, n2 = cands[pick % len(cands)]
        return (lambda: r2.with_rows_satisfying(lib_p(j[3]), **o)), (ColumnError,), f"sel {fmt_p(j[3])} (predicate object of an earlier join) on {fmt(n2, leaves)}"
    if edit == "sort-unsupported-equal-to-existing":
        # the relation already ends in a sort by -c (unrestricted); the request sorts by the *same* expression built
        # from a function restricted to the other engine kind.  The two expressions compare equal (engine support is
        # not part of equality), which must not let the unsupported one slip through the merge.
        if not cols:
            raise Skip()
        c = some(cols)
        other_kind = "it" if kind_here == "sql" else "sql"
        try:
            sorted_rel = rel.sorted([SortTerm(lib_e(("neg", ("ref", c))), True)])
        except Exception:
            raise Skip()
        bad = ("rneg", other_kind, ("ref", c))
        return (lambda: sorted_rel.sorted([SortTerm(lib_e(bad), True)])), (EngineError,), f"sort by {fmt_e(bad)} on a relation already sorted by -{c} in {rel.engine}"
    if edit in ("calc-unsupported-expression", "sort-unsupported-expression", "sel-unsupported-expression"):
        if not cols:
            raise Skip()
        other_kind = "it" if kind_here == "sql" else "sql"
        if pick % 5 == 0:
            other_kind = "none"  # an empty set of supporting engine types: supported nowhere
        inner = ("rneg", other_kind, ("ref", some(cols)))
        # the unsupported function may sit below a function that itself declares this engine, or below an unrestricted one
        e = (inner, ("rneg", kind_here, inner), ("add", inner, ("lit", 1)), ("rneg", kind_here, ("add", ("lit", 1), inner)))[(pick // 7) % 4]
        # a preferred engine of the other kind could legitimately take the operation: keep the request in this kind
        oo = dict(o)
        if oo:
            pe = oo["preferred_engine"]
            pk = "sql" if isinstance(pe, sql.Engine) else "it"
            if pk != kind_here:
                # a preferred engine of the supporting kind may legitimately take the operation (backtracking or
                # transfer); if it cannot, the call must still raise - it must never park the operation in an engine
                # that does not support the expression
                classes_ok_if_wellformed = True
            else:
                classes_ok_if_wellformed = False
        else:
            classes_ok_if_wellformed = False
        if edit == "sel-unsupported-expression":
            bad = ("ge", e, ("lit", 0))
            fine = ("ge", ("ref", some(cols)), ("lit", 0))
            p = (
                bad,
                ("or", (bad, fine)),
                ("or", (fine, bad)),
                ("not", ("or", (fine, bad))),
                ("and", (fine, ("or", (bad, fine)))),
                ("and", (fine, bad)),
                ("not", bad),
                # the unsupported function below a connective whose value is decided by a constant operand: the
                # predicate still contains it, and the predicate as a whole is not constant
                ("or", (fine, ("and", (("plit", False), bad)))),
                ("and", (fine, ("or", (("plit", True), bad)))),
                ("or", (("and", (bad, ("plit", False))), fine)),
            )[(pick // 29) % 10]
            constant_operand = (pick // 29) % 10 >= 7  # built with the dataclass constructors: no factory may fold it away
            return (
                (lambda: rel.with_rows_satisfying(lib_p(p, raw_connectives=bool(pick % 2) or constant_operand), **oo)),
                (EngineError,) + (("wellformed",) if classes_ok_if_wellformed else ()),
                f"selection on {fmt_p(p)} in {rel.engine}",
            )
        if edit == "calc-unsupported-expression":
            if not missing:
                raise Skip()
            tag = missing[0]
            return (
                (lambda: rel.with_calculated_column(tag, lib_e(e), **oo)),
                (EngineError,) + (("wellformed",) if classes_ok_if_wellformed else ()),
                f"calc {tag}={fmt_e(e)} in {rel.engine}",
            )
        return (
            (lambda: rel.sorted([SortTerm(lib_e(e), True)], **oo)),
            (EngineError,) + (("wellformed",) if classes_ok_if_wellformed else ()),
            f"sort by {fmt_e(e)} in {rel.engine}",
        )
    if edit == "slice-negative":
        a = -1 - pick % 3
        if pick % 2:
            return (lambda: rel[a:2]), (ValueError, TypeError), f"rel[{a}:2]"
        return (lambda: Slice(a, 2).apply(rel, **o)), (ValueError, TypeError), f"Slice({a}, 2)"
    if edit == "slice-reversed":
        a = 2 + pick % 3
        return (lambda: rel[a : a - 1 - pick % 2]), (ValueError, TypeError), f"rel[{a}:{a - 1 - pick % 2}]"
    if edit == "slice-stepped":
        step = 2 + pick % 2 if pick % 3 else -1
        # every spelling of the bounds, including the ones that would otherwise select everything
        shape = (pick // 6) % 5
        if shape == 0:
            return (lambda: rel[::step]), (ValueError, TypeError), f"rel[::{step}]"
        if shape == 1:
            return (lambda: rel[0::step]), (ValueError, TypeError), f"rel[0::{step}]"
        if shape == 2:
            return (lambda: rel[:3:step]), (ValueError, TypeError), f"rel[:3:{step}]"
        if shape == 3:
            return (lambda: rel[1::step]), (ValueError, TypeError), f"rel[1::{step}]"
        return (lambda: rel[0:4:step]), (ValueError, TypeError), f"rel[0:4:{step}]"
    if edit == "slice-not-a-slice":
        key = [3, "a", (0, 2), 1.5][pick % 4]
        return (lambda: rel[key]), (ValueError, TypeError), f"rel[{key!r}]"
    raise AssertionError(edit)


def run_case(case, stats):
    from lsst.daf.relation import ColumnError, EngineError

    universe, leaves, prog, idx, edit, opts, seed_expr, pick = case
    env = Env(leaves)
    try:
        rels = {}
        try:
            build_all(prog, env, rels)
        except BuildError as b:
            if not (is_order_loss(b.exc) or isinstance(b.exc, (ColumnError, EngineError))):
                raise Violation("build-raised", f"{fmt(b.node, leaves)}: {type(b.exc).__name__}: {b.exc}", exc=b.exc)
        nodes = [n for n in walk(prog) if id(n) in rels]
        if not nodes:
            return
        node = nodes[idx % len(nodes)]
        rel = rels[id(node)]
        try:
            call, classes, what = make_request(edit, rel, node, env, leaves, universe, opts, seed_expr, pick, rels, prog)
        except Skip:
            stats.c["skipped:edit-not-applicable"] += 1
            return
        before = {id(n): fingerprint(rels[id(n)]) for n in nodes}
        ctx = f"edit {edit}: {what}; options {dict(opts) or 'default'}; target {fmt(node, leaves)} [{str(rel)[:160]}]"
        wellformed_ok = "wellformed" in classes
        classes = tuple(c for c in classes if c != "wellformed")
        try:
            out = call()
        except classes as e:
            stats.c[f"rejected:{edit}:{type(e).__name__}"] += 1
        except Violation:
            raise
        except Exception as e:
            if is_order_loss(e) and edit.startswith(("join", "chain")):
                # the other operand ends in an un-sliced sort: a second, equally documented reason to refuse the call
                stats.c[f"rejected:{edit}:row-order-loss"] += 1
                return
            raise Violation(
                "wrong-exception-class",
                f"raised {type(e).__name__} ({str(e)[:200]}) instead of {[c.__name__ for c in classes]}; {ctx}",
                edit=edit,
                got=type(e).__name__,
                sig=exc_sig(e),
            )
        else:
            bad = None
            if wellformed_ok:
                from vf.core.wellformed import check_tree

                bad = check_tree(out)
                if bad is None:
                    stats.c[f"accepted-in-supporting-engine:{edit}"] += 1
            if not wellformed_ok or bad is not None:
                raise Violation("ill-formed-request-accepted", f"returned {str(out)[:200]}{'' if bad is None else ' [' + bad[1][:200] + ']'}; {ctx}", edit=edit)
        for n in nodes:
            if fingerprint(rels[id(n)]) != before[id(n)]:
                raise Violation("rejected-call-changed-a-relation", f"fingerprint of {fmt(n, leaves)} changed; {ctx}", edit=edit)
        if node[0] != "leaf" or opts:
            stats.mark_nontrivial(codec.digest(case), lambda: describe(case), cls=edit + ("/options" if opts else ""))
    finally:
        env.close()


def describe(case):
    universe, leaves, prog, idx, edit, opts, seed_expr, pick = case
    return describe_case(universe, leaves, prog, target_index=idx, edit=edit, options=dict(opts))


def attribute(case, v):
    return None
