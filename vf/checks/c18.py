"""C18 — the iteration engine is lazy and single-pass where documented."""
from __future__ import annotations

from vf.core import codec
from vf.core.base import Violation
from vf.core.env import Env, take_rows
from vf.core.gen import Cfg, st_program
from vf.core.prog import BuildError, build_all, children, describe_case, ev_list, fmt, kinds, n_ops, show_rows

ID = "C18"
LEVEL = "exploration"
TECHNIQUE = "property-based testing (Hypothesis) with counting leaf payloads: iteration-start counters checked against an occurrence model of the program"
LEVEL_TEXT = (
    "Bounded exploration: generated iteration-engine programs (lazy-only and mixed with sort / deduplication / "
    "materialization, <= 8 / 14 operations) over leaves whose payloads count iteration starts and rows pulled; the "
    "counters are checked after execute() and after each of 1-3 full iterations against bounds derived from the program."
    "  Programs topped with sort / deduplication and a bounded non-empty slice; calculations that call a method of "
    "the value; in a third of the cases the result is first iterated partially (peek at one row, iterator "
    "abandoned)."
)
LEVEL_NOTE = "trusts: the counting payload subclass (vf/core/env.py) behaves like RowSequence apart from counting; reference evaluator for row equality"
RULE = (
    "case = iteration-engine program over counting leaves + number of full iterations (1-3).  Oracles: a program made "
    "only of calc/proj/sel/slice/chain/transfer starts no leaf iteration in execute(); every leaf's iteration-start "
    "counter is <= (#occurrences below an eager operation) after execute() and <= that + k * (#occurrences not below "
    "one) after k full iterations; every iteration yields the rows of the reference evaluator.  Non-trivial: >= 2 "
    "operations over a leaf with >= 2 rows; distinct by digest.  Classes: lazy-only / mixed."
)
ASSUMPTIONS = ["P1 key-column precondition for deduplication", "leaf payloads are RowSequence subclasses (what make_leaf documents)"]

LAZY = ("calc", "proj", "sel", "slice", "chain", "xfer", "leaf")
EAGER = ("sort", "dedup", "mat")


def cfg(tier, lazy_only):
    return Cfg(
        engines=(1, 2),
        unary=("calc", "proj", "sel", "slice") if lazy_only else ("calc", "proj", "sel", "slice", "sort", "dedup"),
        binary=("chain",),
        markers=("xfer",) if lazy_only else ("mat", "xfer"),
        max_ops=8 if tier == "quick" else 14,
        p_binary=0.12,
        loose_bounds=True,
        p_meth=15,
    )


def budget(tier):
    return 5000 if tier == "quick" else 100000


def strategy(tier):
    from hypothesis import strategies as st

    return st.tuples(st.one_of(st_program(cfg(tier, True)), st_program(cfg(tier, False)), st_topped(tier)), st.integers(1, 3))


def st_topped(tier):
    """A program topped with an eager operation and a non-empty window: sort (or deduplication) directly over whatever
    the program ends in, then a bounded slice, then possibly one more lazy operation ("ORDER BY ... LIMIT" shapes)."""
    from hypothesis import strategies as st

    from vf.core.gen import st_unary_node
    from vf.core.prog import schema

    @st.composite
    def build(draw):
        universe, leaves, prog = draw(st_program(cfg(tier, draw(st.booleans()))))
        cols = schema(prog, leaves)
        c = cfg(tier, False)
        eager = draw(st_unary_node(prog, cols, universe, (draw(st.sampled_from(["sort", "sort", "dedup"])),), c))
        if eager is None:
            return (universe, leaves, prog)
        start = draw(st.integers(0, 1))
        out = ("slice", eager, start, start + draw(st.integers(1, 3)))
        if draw(st.booleans()):
            out = draw(st_unary_node(out, cols, universe, ("sel", "calc", "proj"), c)) or out
        return (universe, leaves, out)

    return build()


def occurrences(root, env):
    """{leaf index: [below an eager op, not below one, 'either']} counting paths in the *library* tree.

    Eager nodes are Sort / Deduplication operation relations and Materialization markers.  A deduplication applied
    (through markers only) to a leaf whose payload already is a RowMapping may hand that payload back unchanged
    (documented RowMapping.to_mapping short-cut) or build a new mapping, depending on key order; materialized() returns
    an already materialized payload unchanged.  Such occurrences are 'either' and get the union of both bounds.
    """
    from lsst.daf.relation import (
        BinaryOperationRelation,
        Deduplication,
        LeafRelation,
        MarkerRelation,
        Materialization,
        Sort,
        UnaryOperationRelation,
        iteration,
    )

    out = {}

    def own_payload(rel):
        """Index of the leaf whose own payload object executing `rel` may return, else None."""
        if isinstance(rel, LeafRelation):
            i = env.leaf_index(rel)
            return i if env.payloads[i] is not None else None
        if isinstance(rel, MarkerRelation):
            return own_payload(rel.target)
        if isinstance(rel, UnaryOperationRelation) and isinstance(rel.operation, Deduplication):
            i = own_payload(rel.target)
            return i if i is not None and isinstance(env.payloads[i], iteration.RowMapping) else None
        return None

    def rec(rel, mode):
        if isinstance(rel, LeafRelation):
            out.setdefault(env.leaf_index(rel), [0, 0, 0])[mode] += 1
        elif isinstance(rel, BinaryOperationRelation):
            rec(rel.lhs, mode)
            rec(rel.rhs, mode)
        elif isinstance(rel, UnaryOperationRelation):
            m = mode
            if mode == 1 and isinstance(rel.operation, (Sort, Deduplication)):
                m = 2 if own_payload(rel) is not None else 0
            rec(rel.target, m)
        elif isinstance(rel, Materialization):
            m = mode
            if mode == 1:
                m = 2 if own_payload(rel) is not None else 0
            rec(rel.target, m)
        else:
            rec(rel.target, mode)

    rec(root, 1)
    return out


def own_payload_of(rel, env):
    """Index of the leaf whose own payload object executing `rel` may return (documented pass-through short-cuts:
    materialized() of an already materialized payload, to_mapping() of a RowMapping with the same key), else None."""
    from lsst.daf.relation import Deduplication, LeafRelation, MarkerRelation, UnaryOperationRelation, iteration

    if isinstance(rel, LeafRelation):
        i = env.leaf_index(rel)
        return i if env.payloads[i] is not None else None
    if isinstance(rel, MarkerRelation):
        return own_payload_of(rel.target, env)
    if isinstance(rel, UnaryOperationRelation) and isinstance(rel.operation, Deduplication):
        i = own_payload_of(rel.target, env)
        return i if i is not None and isinstance(env.payloads[i], iteration.RowMapping) else None
    return None


def leaves_only_below_materializations(root, env):
    """Leaf indices all of whose paths from the root cross a Materialization that really evaluates (not a pure
    pass-through of a leaf payload)."""
    from lsst.daf.relation import BinaryOperationRelation, LeafRelation, MarkerRelation, Materialization, UnaryOperationRelation

    free = set()
    covered = set()

    def passes_through(rel):
        return own_payload_of(rel, env) is not None

    def rec(rel, under):
        if isinstance(rel, LeafRelation):
            (covered if under else free).add(env.leaf_index(rel))
        elif isinstance(rel, BinaryOperationRelation):
            rec(rel.lhs, under)
            rec(rel.rhs, under)
        elif isinstance(rel, Materialization):
            rec(rel.target, under or not passes_through(rel))
        else:
            rec(rel.target, under)

    rec(root, False)
    return covered - free


def run_case(case, stats):
    (universe, leaves, prog), iters = case
    expected = ev_list(prog, leaves, check_fd=True)
    env = Env(leaves, counting=True)
    try:
        try:
            rels = build_all(prog, env)
        except BuildError as b:
            raise Violation("build-raised", f"{fmt(b.node, leaves)}: {type(b.exc).__name__}: {b.exc}", exc=b.exc)
        root = rels[id(prog)]
        occ = occurrences(root, env)
        ks = set(kinds(prog))
        lazy_only = all(v[0] == 0 and v[2] == 0 for v in occ.values())
        stats.c["class:lazy-only" if lazy_only else "class:mixed"] += 1
        ctx = f"program {fmt(prog, leaves)}; tree {root}"

        def counters():
            return {i: env.payloads[i].iter_starts for i in occ if leaves[i][4] == "data"}

        try:
            result = root.engine.execute(root)
        except Exception as e:
            raise Violation("execute-raised", f"{type(e).__name__}: {e}; {ctx}", exc=e)
        after_exec = counters()
        for i, n in after_exec.items():
            if lazy_only and n != 0:
                raise Violation("not-lazy", f"execute() started {n} iteration(s) of leaf {leaves[i][0]} in a lazy-only tree; {ctx}")
            if n > occ[i][0] + occ[i][2]:
                raise Violation(
                    "eager-multi-pass",
                    f"execute() started {n} iterations of leaf {leaves[i][0]} but only {occ[i][0] + occ[i][2]} occurrence(s) sit below sort/dedup/materialize; {ctx}",
                )
        # a first, *partial* iteration of the result (the caller peeks at the first row and abandons the iterator): the
        # result object must not remember anything from it
        peeks = int(codec.digest(case)[:2], 16) % 3 == 0
        if peeks:
            try:
                it = iter(result)
                next(it, None)
                del it
            except Exception as e:
                raise Violation("iterate-raised", f"peeking at the first row: {type(e).__name__}: {e}; {ctx}", exc=e)
            stats.c["class:peeked-first"] += 1
        for k in range(1 + peeks, iters + 1 + peeks):
            try:
                got = take_rows(result)
            except Exception as e:
                raise Violation("iterate-raised", f"{type(e).__name__}: {e}; {ctx}", exc=e)
            if got != expected:
                raise Violation("rows-differ", f"iteration #{k}{' (after a partial first iteration)' if peeks else ''}: expected {show_rows(expected)} got {show_rows(got)}; {ctx}")
            now = counters()
            for i, n in now.items():
                bound = occ[i][0] + occ[i][2] + k * (occ[i][1] + occ[i][2])
                if n > bound:
                    raise Violation(
                        "multi-pass",
                        f"after {k} full iteration(s) leaf {leaves[i][0]} was started {n} times; bound {bound} = eager {occ[i][0]}, lazy {occ[i][1]}, either {occ[i][2]} occurrence(s); {ctx}",
                    )
                if occ[i][1] == 0 and occ[i][2] == 0 and n != after_exec[i]:
                    raise Violation(
                        "eager-reconsumed",
                        f"leaf {leaves[i][0]} sits only below eager operations but its counter grew from {after_exec[i]} to {n} during iteration #{k}; {ctx}",
                    )
        # a second execute() of the same relation: whatever sits only below real materializations is served from their
        # caches ("never again afterwards")
        before2 = counters()
        try:
            again = take_rows(root.engine.execute(root))
        except Exception as e:
            raise Violation("execute-raised", f"second execute(): {type(e).__name__}: {e}; {ctx}", exc=e)
        if again != expected:
            raise Violation("rows-differ", f"second execute(): expected {show_rows(expected)} got {show_rows(again)}; {ctx}")
        mat_only = leaves_only_below_materializations(root, env)
        after2 = counters()
        for i in mat_only:
            if i in after2 and after2[i] != before2[i]:
                raise Violation(
                    "materialization-recomputed",
                    f"leaf {leaves[i][0]} sits only below materializations, yet a second execute() iterated it again ({before2[i]} -> {after2[i]}); {ctx}",
                )
        if mat_only:
            stats.c["class:second-execute-over-materialization"] += 1
        if n_ops(prog) >= 2 and any(len(leaves[i][2]) >= 2 for i in occ if leaves[i][4] == "data"):
            stats.mark_nontrivial(codec.digest(case), lambda: describe(case), cls=("lazy" if lazy_only else "+".join(sorted(ks & set(EAGER)))))
    finally:
        env.close()


def describe(case):
    return describe_case(*case[0], iterations=case[1])


def attribute(case, v):
    return None
