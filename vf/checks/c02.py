"""C02 — SQL compilation preserves relational semantics (translation validation against SQLite)."""
from __future__ import annotations

from vf.core import codec
from vf.core.base import Violation
from vf.core.env import DatabaseError, Env
from vf.core.gen import Cfg, st_program
from vf.core.prog import (
    BuildError,
    build_all,
    compare,
    describe_case,
    ev_bag,
    fmt,
    kinds,
    n_ops,
    schema,
    walk,
)
from vf.core.sqlh import CompileError, compile_and_run, marker_sort_terms, select_levels, sql_text

ID = "C02"
LEVEL = "translation_validation"
TECHNIQUE = "property-based translation validation (Hypothesis): compiled SELECT/UNION run on SQLite under both scan orders vs an independent bag-semantics evaluator with determinacy labels"
LEVEL_TEXT = (
    "Translation validation per generated program: every relation built (root and each prefix) is compiled with "
    "sql.Engine.to_executable, executed on an in-memory SQLite database holding the leaf tables (forward and reversed "
    "unordered scans) and compared as a multiset (as a list where order is promised, by a validity predicate where a "
    "LIMIT without total order makes the result legitimately ambiguous) with direct evaluation.  Programs are sampled "
    "(<= 8 / 14 operations, <= 3 leaves); no claim beyond the explored programs."
    "  Joins may be diamonds (both operands built on one sub-query-rendered relation object, or that very object "
    "twice); a sibling program (every calculation shifted by one) is compiled by the same engine object; in a "
    "quarter of the cases the engine first has to refuse some compilations (unprocessed materialization below a "
    "sub-query, a column function that raises while being converted)."
    "  Every root relation with determined content is also compiled with an additional SELECT expression (to_executable's extra_columns, as a list and as a one-shot iterator): same rows, and the extra value in every row."
)
LEVEL_NOTE = (
    "trusts: reference evaluator ev_bag + its determinacy labels (DESIGN 4.4), SQLite 3.40 / SQLAlchemy 2.0; domain: join "
    "operands share only key columns (P8), no leaf object on both sides of a join (P4), NULL-free small integers"
)
RULE = (
    "case = tag universe with generated hashes + SQL leaves (plain / renamed physical columns / aliased / subquery / "
    "pre-populated WHERE payloads, doomed / identity / zero-column leaves, loose bounds) + a program over all six "
    "unary operations, join (+- predicate), chain and materialize-free nesting.  Oracle: rows fetched by name from "
    "SQLite under both PRAGMA reverse_unordered_selects settings compare equal to ev_bag (list / multiset / validity per "
    "determinacy label) for the root and every prefix relation.  Non-trivial: >= 2 operations, a binary operation or "
    ">= 2 SELECT levels in the compiled tree, and a non-empty expected result; distinct by case digest.  programs = "
    "cases executed; disagreements_checked = relation-vs-evaluator comparisons made."
)
ASSUMPTIONS = [
    "P8: join operands overlap only in key columns",
    "P4: the same SQL leaf object never appears on both sides of a join",
    "compile-time / database errors are the subject of C08 and are only counted here",
]


def cfg(tier):
    return Cfg(engines=(0,), max_ops=8 if tier == "quick" else 14, p_binary=0.22, avoid=frozenset(["D9", "D10", "D11"]), prelude=0.5)


def budget(tier):
    return 6000 if tier == "quick" else 150000


def strategy(tier):
    return st_program(cfg(tier))


ACCEPTED_BUILD = ("ColumnError", "EngineError")


def is_order_loss(exc):
    from lsst.daf.relation import ColumnError, EngineError, RelationalAlgebraError

    return isinstance(exc, RelationalAlgebraError) and not isinstance(exc, (ColumnError, EngineError)) and "row order" in str(exc)


def check_relation(env, node, rel, leaves, memo, rels, stats, label):
    res = ev_bag(node, leaves, marker_sort=lambda n: marker_sort_terms(rels.get(id(n))), memo=memo, stats=stats.c)
    try:
        outs, ex = compile_and_run(env, rel)
    except CompileError as e:
        stats.c["uncompilable:" + type(e.exc).__name__] += 1
        return None
    except DatabaseError as e:
        stats.c["db-error:" + type(e.exc).__name__] += 1
        return None
    except KeyError as e:
        raise Violation("result-shape", f"column {e} missing from the result set; program {fmt(node, leaves)}; tree {rel}")
    stats.c["compared"] += 1
    stats.c["label:" + ("ordered" if res.ordered else "det" if res.det else "ambiguous")] += 1
    for which, rows in zip(("forward", "reverse"), outs):
        bad = compare(res, rows)
        if bad:
            raise Violation(
                "rows-differ",
                f"[{label}, {which} scan] {bad}; program {fmt(node, leaves)}; tree {rel}; SQL {sql_text(ex)[:900]}",
                node_kinds=kinds(node),
            )
    if res.det and not res.ordered and outs[0] != outs[1] and False:
        pass
    return res


def rule_stats(built, rels, stats):
    """Which branch of the SQL engine's append rules each factory call exercised (statistics only)."""
    from lsst.daf.relation.sql import Select

    for node in built:
        if node[0] in ("calc", "proj", "sel", "dedup", "sort", "slice"):
            src = rels.get(id(node[1]))
            if isinstance(src, Select):
                state = "".join(
                    c
                    for c, on in (("S", src.has_sort), ("P", src.has_projection), ("D", src.has_deduplication), ("L", src.has_slice), ("U", src.is_compound))
                    if on
                )
                stats.c[f"rule:{node[0]}-on-[{state}]"] += 1


def shift_calcs(prog, memo):
    """The same program with 1 added to every calculated expression (sharing of sub-programs preserved)."""
    from vf.core.prog import children

    if id(prog) in memo:
        return memo[id(prog)]
    if prog[0] == "leaf":
        out = prog
    else:
        kids = children(prog)
        new = tuple(shift_calcs(c, memo) for c in kids)
        rest = tuple(prog[1 + len(kids) :])
        if prog[0] == "calc":
            rest = (rest[0], ("add", rest[1], ("lit", 1))) + rest[2:]
        out = (prog[0],) + new + rest
    memo[id(prog)] = out
    return out


def run_case(case, stats):
    universe, leaves, prog = case
    env = Env(leaves)
    try:
        if int(codec.digest(case)[2:4], 16) % 4 == 0:
            from vf.core.sqlh import failed_compilations

            failed_compilations(env, stats)
        rels = {}
        try:
            build_all(prog, env, rels)
        except BuildError as b:
            from lsst.daf.relation import ColumnError, EngineError

            if is_order_loss(b.exc):
                stats.c["build:order-loss-refused"] += 1
            elif isinstance(b.exc, (ColumnError, EngineError)):
                stats.c["build:rejected-" + type(b.exc).__name__] += 1
            else:
                raise Violation(
                    "build-raised", f"factory call for {fmt(b.node, leaves)} raised {type(b.exc).__name__}: {b.exc}", exc=b.exc
                )
        memo = {}
        built = [n for n in walk(prog) if id(n) in rels and n[0] != "leaf"]
        rule_stats(built, rels, stats)
        root_res = None
        for node in built:
            rel = rels[id(node)]
            if set(rel.columns) != set(schema(node, leaves)):
                raise Violation("columns-differ", f"{set(rel.columns)} != {set(schema(node, leaves))}; program {fmt(node, leaves)}")
            res = check_relation(env, node, rel, leaves, memo, rels, stats, "root" if node is prog else "prefix")
            if node is prog:
                root_res = (res, rel)
        # sibling program: the same program with every calculation shifted by one, built and compiled with the *same*
        # engine object and leaves.  Predicates, sort terms and projections above the calculations are value-equal to
        # the original's, the columns they read are not - nothing an engine remembers from the first compilation may
        # leak into the second.
        if id(prog) in rels and "calc" in kinds(prog) and int(codec.digest(case)[:2], 16) % 3 == 0:
            sib = shift_calcs(prog, {})
            rels2 = {}
            try:
                build_all(sib, env, rels2)
            except BuildError:
                rels2 = {}
            if id(sib) in rels2:
                check_relation(env, sib, rels2[id(sib)], leaves, {}, rels2, stats, "sibling program (calculations shifted by one), same engine")
                stats.c["sibling-programs"] += 1
        if root_res and root_res[0] is not None and root_res[0].det:
            # to_executable(relation, extra_columns=...): additional SELECT expressions must come back with every row and
            # must not change the relation's own rows, whether the Iterable is a list or a one-shot iterator
            from vf.core.sqlh import CompileError, run_with_extra

            res, rel = root_res
            for one_shot in (False, True):
                how = "a one-shot iterator" if one_shot else "a list"
                try:
                    rows_x, extras, ex_x = run_with_extra(env, rel, one_shot)
                except CompileError as e:
                    raise Violation("compile-raised", f"to_executable(extra_columns={how}) raised {e}; program {fmt(prog, leaves)}; tree {rel}", exc=e.exc, extra_columns=how)
                except DatabaseError as e:
                    raise Violation("database-error", f"statement compiled with extra_columns={how}: {e}; program {fmt(prog, leaves)}; tree {rel}; SQL {e.sql_text[:600]}", extra_columns=how)
                bad = compare(res, rows_x)
                if bad:
                    raise Violation("rows-differ", f"[compiled with extra_columns={how}] {bad}; program {fmt(prog, leaves)}; tree {rel}; SQL {sql_text(ex_x)[:600]}", extra_columns=how)
                if any(x != 7 for x in extras):
                    raise Violation("extra-column-lost", f"extra_columns={how}: the additional SELECT expression came back as {extras[:5]} (expected 7 in every row); program {fmt(prog, leaves)}; SQL {sql_text(ex_x)[:600]}", extra_columns=how)
            stats.c["extra-columns-probes"] += 1
        if root_res and root_res[0] is not None:
            res, rel = root_res
            ks = kinds(prog)
            levels = select_levels(rel)
            stats.c[f"select_levels:{min(levels, 5)}"] += 1
            for k in set(ks):
                stats.c[f"op:{k}"] += 1
            if n_ops(prog) >= 2 and (levels >= 2 or "join" in ks or "chain" in ks) and res.rows:
                cls = ("join" if "join" in ks else "") + ("chain" if "chain" in ks else "") + f"/levels={min(levels, 4)}"
                stats.mark_nontrivial(codec.digest(case), lambda: describe(case), cls=cls)
    finally:
        env.close()


def describe(case):
    return describe_case(*case)


EXHAUSTIVE_NOTE = (
    "SELECT-rule matrix: every subset of {sort, projection, deduplication, slice} on the bases leaf / selection / chain / "
    "join, followed by every one (quick) or every two (thorough; quick: leaf base only) operations of a fixed list of "
    "13, on two fixed data sets (vf/core/matrix.py)"
)


def exhaustive(tier, stats, shard, nshards, run):
    from vf.core.matrix import select_matrix

    plans = [(1, ("leaf", "sel", "chain", "join")), (2, ("leaf",) if tier == "quick" else ("leaf", "sel", "chain", "join"))]
    idx = 0
    for steps, bases in plans:
        for label, case in select_matrix(steps, 0, bases):
            idx += 1
            if idx % nshards != shard:
                continue
            try:
                run(case)
            except Violation as v:
                v.case = case
                raise
            stats.c["matrix_cases"] += 1


def attribute(case, v):
    return None
