"""C05 — merging and eliding adjacent operations preserves semantics and never rejects."""
from __future__ import annotations

import itertools

from hypothesis import strategies as st

from vf.core import codec
from vf.core.base import Violation
from vf.core.env import Env
from vf.core.expr import Undecodable, fmt_e, fmt_p, lib_e, lib_p, st_expr, st_pred
from vf.core.gen import Cfg, st_leaf, st_slice, st_sort_terms, st_universe
from vf.core.prog import count_op_nodes, decode, decode_op, ev_list, fmt, fmt_leaves, show_rows, with_src
from vf.core.tags import sorted_tags

ID = "C05"
LEVEL = "exploration"
TECHNIQUE = "property-based testing (Hypothesis) + exhaustive enumeration of the slice-pair space; reference-evaluator oracle"
LEVEL_TEXT = (
    "Bounded exploration: the slice x slice merge space is enumerated completely for starts 0..7, lengths 0..7/None and 0..9 "
    "rows; all other merge/elision families are sampled (thousands of generated pairs per run) and compared with an "
    "independent evaluator and the iteration engine (incl. selections mixing a condition with constant-foldable "
    "operands, and a guarding selection followed by one that is only defined on the guarded rows - floor division by "
    "the guarded column).  Two fixed probes: a user-defined non-idempotent Reordering next to every built-in operation "
    "and next to itself (never merged, never dropped); equal pairs of selections / sorts whose function is restricted to "
    "a different kind of engine, merged in one engine after the other.  No absence claim beyond those bounds."
    "  The same upstream relation object is merged into a second time with a different operation of the same kind "
    "and a third time with the first one."
    "  A family of sorts / selections whose expressions hold unhashable literal values (a constant list handed to a user-defined column function) is applied singly and in every adjacent pair."
)
LEVEL_NOTE = "trusts: the reference evaluator (vf/core/prog.py), decoding of library operations through public dataclass fields, Hypothesis"
RULE = (
    "case = one iteration-engine leaf + an ordered pair (up, down) of individually valid operations drawn from the "
    "merge/elision families (slice/slice, sort/sort, selection/selection, projection over projection or calculation, "
    "do-nothing slice/sort/projection, trivially-true selection); plus the exhaustive space of slice pairs with "
    "start 0..7, stop in {None, start..start+7} over 0..9 rows.  Oracle: down.simplify(up) and the tree returned by the "
    "factories both evaluate (reference evaluator + iteration engine) to the rows of up-then-down in order, and no "
    "call raises.  Non-trivial: the returned tree has fewer than 2 operation nodes (a merge or elision fired); "
    "distinct by digest of the whole case."
)
ASSUMPTIONS = [
    "operations are decoded from the library's public dataclass fields",
    "reference evaluator vf.core.prog.ev_list shares no code with the library",
]
EXHAUSTIVE_NOTE = "all slice pairs start 0..7 x stop {None,start..start+7} x row counts 0..9 (simplify() and factory tree); plus all ordered pairs over the 20 unary operations of the C04 grid on 2 fixed targets"

CFG = Cfg(engines=(1,), special_leaves=False, loose_bounds=False, max_cols=4, max_rows=6)


def budget(tier):
    return 4000 if tier == "quick" else 120000


# ---------------------------------------------------------------- generation


@st.composite
def st_pair(draw, cols, universe):
    cols = sorted_tags(cols)
    free = [t for t in universe if t not in cols]
    fam = draw(
        st.sampled_from(
            ["slice", "slice", "bigslice", "sort", "sort", "sel", "sel", "projproj", "projcalc", "calcchain", "calcchain", "noop", "trivsel", "mixed", "wrapsel", "guardsel"]
        )
    )
    if fam == "calcchain" and cols and len(free) >= 2:
        # a run of calculations, later ones possibly reading earlier ones, then a projection keeping some of them
        n = draw(st.integers(2, min(3, len(free))))
        tags = draw(st.permutations(free))[:n]
        have = list(cols)
        ups = []
        for t in tags:
            ups.append(("calc", t, draw(st_expr(have, 1, need_ref=True))))
            have.append(t)
        order = draw(st.permutations(have))
        keep = tuple(order[: draw(st.integers(0, len(order)))])
        return (("seq", tuple(ups)), ("proj", keep))
    if fam == "wrapsel":
        # a selection whose predicate combines a real condition with constant-foldable operands: it is *not* a
        # do-nothing selection and must not be elided (nor its merge with an upstream selection)
        from vf.core.gen import Cfg as _Cfg, st_wrapped_pred

        up = ("sel", draw(st_pred(cols, 1))) if draw(st.booleans()) else draw(st_any_op(cols, free))
        return (up, ("sel", draw(st_wrapped_pred(cols, _Cfg(p_wrap=100, p_plit=0), depth=1))))
    if fam == "guardsel" and cols:
        # the second selection is only defined on rows that pass the first (division by a column the first one
        # requires to be non-zero); in sequence that is fine, so the merged selection must be fine as well
        g = draw(st.sampled_from(cols))
        num = draw(st.one_of(st.just(("lit", 6)), st.sampled_from(cols).map(lambda t: ("ref", t))))
        guard = ("ne", ("ref", g), ("lit", 0))
        if draw(st.booleans()):
            guard = ("and", (guard, draw(st_pred(cols, 0, literals=False))))
        dep = (draw(st.sampled_from(["ge", "lt", "eq"])), ("fdiv", num, ("ref", g)), ("lit", draw(st.integers(-2, 3))))
        if draw(st.booleans()):
            dep = (draw(st.sampled_from(["and", "or"])), (dep, draw(st_pred(cols, 0, literals=False))))
        return (("sel", guard), ("sel", dep))
    if fam == "slice":
        return (("slice",) + draw(st_slice(7, 7)), ("slice",) + draw(st_slice(7, 7)))
    if fam == "bigslice":
        big = st.one_of(st.integers(0, 9), st.integers(2**31 - 2, 2**31 + 2), st.integers(2**63 - 2, 2**70))

        def sl():
            s = draw(big)
            e = draw(st.one_of(st.none(), big.map(lambda x: s + x), st.just(s)))
            return ("slice", s, e)

        return (sl(), sl())
    if fam == "sort" and cols:
        a = draw(st_sort_terms(cols))
        b = draw(st.one_of(st_sort_terms(cols), st.just(tuple((e, not asc) for e, asc in a)), st.just(a[:1])))
        return (("sort", a), ("sort", b))
    if fam == "sel":
        return (("sel", draw(st_pred(cols, 2))), ("sel", draw(st_pred(cols, 2))))
    if fam == "projproj" and cols:
        order = draw(st.permutations(cols))
        k1 = draw(st.integers(0, len(order)))
        first = tuple(order[:k1])
        order2 = draw(st.permutations(list(first)))
        k2 = draw(st.integers(0, len(order2)))
        return (("proj", first), ("proj", tuple(order2[:k2])))
    if fam == "projcalc" and cols and free:
        tag = draw(st.sampled_from(free))
        e = draw(st_expr(cols, 2, need_ref=True))
        order = draw(st.permutations(cols + [tag]))
        k = draw(st.integers(0, len(order)))
        keep = tuple(order[:k])
        return (("calc", tag, e), ("proj", keep))
    if fam == "noop":
        up = draw(st_any_op(cols, free))
        down = draw(st.sampled_from([("slice", 0, None), ("sort", ()), ("proj", None), ("sel", ("plit", True)), ("sel", ("and", ()))]))
        return (up, down)
    if fam == "trivsel":
        up = draw(st_any_op(cols, free))
        p = draw(st.sampled_from([("plit", True), ("and", ()), ("and", (("plit", True),)), ("not", ("plit", False)), ("or", (("plit", True), ("plit", False)))]))
        return (up, ("sel", p))
    return (draw(st_any_op(cols, free)), draw(st_any_op(cols, free)))


@st.composite
def st_any_op(draw, cols, free):
    ks = ["sel", "slice", "dedup"]
    if cols:
        ks += ["sort", "proj"]
        if free:
            ks.append("calc")
    k = draw(st.sampled_from(ks))
    if k == "sel":
        return ("sel", draw(st_pred(cols, 1)))
    if k == "slice":
        return ("slice",) + draw(st_slice())
    if k == "dedup":
        return ("dedup",)
    if k == "sort":
        return ("sort", draw(st_sort_terms(cols)))
    if k == "proj":
        order = draw(st.permutations(cols))
        return ("proj", tuple(order[: draw(st.integers(0, len(order)))]))
    return ("calc", draw(st.sampled_from(free)), draw(st_expr(cols, 1, need_ref=True)))


@st.composite
def st_case(draw):
    universe = draw(st_universe("allkey"))
    leaf = draw(st_leaf(CFG, universe, 0))
    up, down = draw(st_pair(leaf[1], universe))
    return (universe, (leaf,), up, down)


def strategy(tier):
    return st_case()


# ---------------------------------------------------------------- oracle


def lib_op(spec, cur_cols):
    from lsst.daf.relation import Calculation, Deduplication, Projection, Selection, Slice, Sort, SortTerm

    k = spec[0]
    if k == "slice":
        return Slice(spec[1], spec[2])
    if k == "sort":
        return Sort(tuple(SortTerm(lib_e(e), asc) for e, asc in spec[1]))
    if k == "sel":
        return Selection(lib_p(spec[1]))
    if k == "proj":
        return Projection(frozenset(cur_cols if spec[1] is None else spec[1]))
    if k == "calc":
        return Calculation(spec[1], lib_e(spec[2]))
    if k == "dedup":
        return Deduplication()
    raise AssertionError(spec)


def norm(spec, cur_cols):
    if spec[0] == "proj" and spec[1] is None:
        return ("proj", tuple(sorted_tags(cur_cols)))
    return spec


def valid_on(spec, cols):
    """Is the operation individually valid on a relation with these columns?"""
    from vf.core.expr import cols_e, cols_p

    k = spec[0]
    if k == "sort":
        return all(cols_e(e) <= cols for e, _ in spec[1])
    if k == "sel":
        return cols_p(spec[1]) <= cols
    if k == "proj":
        return frozenset(spec[1]) <= cols
    if k == "calc":
        return spec[1] not in cols and cols_e(spec[2]) <= cols
    return True


def run_case(case, stats):
    universe, leaves, up, down = case
    cols0 = frozenset(leaves[0][1])
    from vf.core.prog import schema

    if up[0] == "seq":
        # several upstream operations; the merge / elision under test is between the last of them (and whatever
        # the library elides further up) and `down`
        prog_up = ("leaf", 0)
        for spec in up[1]:
            if not valid_on(spec, schema(prog_up, leaves)):
                stats.c["skipped:up-invalid"] += 1
                return
            prog_up = with_src(spec, prog_up)
        cols0 = schema(prog_up[1], leaves)
        up = up[1][-1]
        seq_mode = True
    else:
        seq_mode = False
        up = norm(up, cols0)
        if not valid_on(up, cols0):
            stats.c["skipped:up-invalid"] += 1
            return
        prog_up = with_src(up, ("leaf", 0))
    cols1 = schema(prog_up, leaves)
    down = norm(down, cols1)
    if not valid_on(down, cols1):
        stats.c["skipped:down-invalid"] += 1
        return
    prog = with_src(down, prog_up)
    expected = ev_list(prog, leaves)
    pair = f"{up[0]}>{down[0]}"
    stats.c[f"pair:{pair}"] += 1
    ctx = f"up={fmt(prog_up, leaves)} down={down[0]}{_fmt_spec(down)} leaf={fmt_leaves(leaves)}"

    # (1) operation-level simplify
    try:
        lup, ldown = lib_op(up, cols0), lib_op(down, cols1)
        simplified = ldown.simplify(lup)
    except Exception as e:
        raise Violation("merge-raised", f"simplify raised {type(e).__name__}: {e}; {ctx}", exc=e)
    if simplified is not None:
        stats.c["simplify:merged"] += 1
        try:
            one = with_src(decode_op(simplified), prog_up[1] if seq_mode else ("leaf", 0))
            got = ev_list(one, leaves)
        except Undecodable as e:
            raise Violation("merge-undecodable", f"{e}; {ctx}")
        except KeyError as e:
            raise Violation("merge-illformed", f"merged operation {simplified} needs column {e}; {ctx}")
        if got != expected:
            raise Violation(
                "merge-changed-rows",
                f"simplify -> {simplified}: expected {show_rows(expected)} got {show_rows(got)}; {ctx}",
            )

    # (2) the tree the factories return
    env = Env(leaves)
    try:
        from vf.core.prog import apply_node

        try:
            if seq_mode:
                from vf.core.prog import build_all

                rels_ = {}
                build_all(prog_up, env, rels_)
                r1 = rels_[id(prog_up)]
            else:
                r1 = apply_node(prog_up, [env.leafrels[0]], env)
            r2 = apply_node(prog, [r1], env)
        except Exception as e:
            raise Violation("apply-raised", f"factory raised {type(e).__name__}: {e}; {ctx}", exc=e)
        nodes = count_op_nodes(r2)
        if set(r2.columns) != set(schema(prog, leaves)):
            raise Violation("columns", f"columns {set(r2.columns)} != {set(schema(prog, leaves))}; {ctx}")
        try:
            dec = decode(r2, env)
            got_tree = ev_list(dec, leaves)
        except Undecodable as e:
            raise Violation("tree-undecodable", f"{e}; {ctx}")
        except KeyError as e:
            raise Violation("tree-illformed", f"the returned tree {r2} applies an operation to a relation lacking column {e}; {ctx}")
        if got_tree != expected:
            raise Violation(
                "tree-changed-rows", f"tree {r2}: expected {show_rows(expected)} decoded tree gives {show_rows(got_tree)}; {ctx}"
            )
        try:
            got_exec = env.run_iter(r2)
        except Exception as e:
            raise Violation("execute-raised", f"{type(e).__name__}: {e}; tree {r2}; {ctx}", exc=e)
        if got_exec != expected:
            raise Violation(
                "exec-changed-rows", f"tree {r2}: expected {show_rows(expected)} executed {show_rows(got_exec)}; {ctx}"
            )
        # history: the same upstream relation object is extended a second time with a *different* operation of the same
        # kind, then once more with the first one - whatever the first merge did to shared objects (cached lists on
        # the upstream predicate, ...) must not show up in the later merges
        if down[0] == "sel":
            down2 = ("sel", ("not", down[1]))
        elif down[0] == "sort":
            down2 = ("sort", tuple((e, not asc) for e, asc in down[1]))
        elif down[0] == "slice":
            down2 = ("slice", down[1] + 1, None if down[2] is None else down[2] + 1)
        else:
            down2 = down
        for again, spec in (("a second, different operation on the same upstream relation", down2), ("the first operation again on the same upstream relation", down)):
            prog2 = with_src(spec, prog_up)
            try:
                r3 = apply_node(prog2, [r1], env)
                got3 = env.run_iter(r3)
            except Exception as e:
                raise Violation("apply-raised", f"{again}: {type(e).__name__}: {e}; second={spec[0]}{_fmt_spec(spec)}; {ctx}", exc=e)
            exp3 = ev_list(prog2, leaves)
            if got3 != exp3:
                raise Violation("exec-changed-rows", f"{again}: tree {r3}: expected {show_rows(exp3)} executed {show_rows(got3)}; {ctx}", history=True)
        stats.c["second-merges"] += 1
        stats.c[f"tree_nodes:{nodes}"] += 1
        if nodes < (len(case[2][1]) + 1 if seq_mode else 2):
            stats.mark_nontrivial(codec.digest(case), lambda: describe(case), cls=f"{pair}/nodes={nodes}")
    finally:
        env.close()


def _fmt_spec(spec):
    k = spec[0]
    if k == "slice":
        return f"[{spec[1]}:{spec[2]}]"
    if k == "sort":
        return "(" + ",".join(("" if a else "-") + fmt_e(e) for e, a in spec[1]) + ")"
    if k == "sel":
        return f"({fmt_p(spec[1])})"
    if k == "proj":
        return f"({spec[1]})"
    if k == "calc":
        return f"({spec[1]}={fmt_e(spec[2])})"
    return ""


def describe(case):
    universe, leaves, up, down = case
    ups = up[1] if up[0] == "seq" else (up,)
    return {"leaf": fmt_leaves(leaves), "up": " then ".join(u[0] + _fmt_spec(u) for u in ups), "down": down[0] + _fmt_spec(down)}


# ---------------------------------------------------------------- user-defined operations are never merged or elided

_REV = None


def reverse_operation():
    global _REV
    if _REV is None:
        import dataclasses

        from lsst.daf.relation import Reordering

        @dataclasses.dataclass(frozen=True)
        class ReverseRows(Reordering):
            def __str__(self):
                return "reverse"

        _REV = ReverseRows
    return _REV


def custom_operation_probe(g, targets, universe, cols, stats):
    """A user-defined Reordering (not idempotent: it reverses the rows) next to every built-in operation and next to
    itself: nothing the library knows allows merging it with a neighbour or dropping it, so every application must leave
    its own node in the tree and leave the tree below untouched."""
    from vf.core.prog import lib_nodes

    Rev = reverse_operation()
    rows = targets[0]
    leaf = ("L0", cols, rows, 1, "data", (len(rows), len(rows)), "plain")
    env = Env((leaf,))
    try:
        base = env.leafrels[0]

        def count(rel):
            return sum(1 for n in lib_nodes(rel) if isinstance(getattr(n, "operation", None), Rev))

        r1 = Rev().apply(base)
        r2 = Rev().apply(r1)
        if count(r1) != 1 or count(r2) != 2 or r2.target is not r1:
            raise Violation("custom-operation-elided", f"a user-defined Reordering applied twice gives {r2} (applied once: {r1})")
        for spec in g:
            if not valid_on(norm(spec, frozenset(cols)), frozenset(cols)):
                continue
            op = lib_op(norm(spec, frozenset(cols)), frozenset(cols))
            what = f"{spec[0]}{_fmt_spec(spec)}"
            try:
                after = op.apply(r1)
                before = Rev().apply(op.apply(base))
            except Exception as e:
                raise Violation("apply-raised", f"{what} next to a user-defined Reordering raised {type(e).__name__}: {e}", exc=e)
            if count(after) != 1:
                raise Violation("custom-operation-elided", f"{what} applied to reverse(L0) gives {after}: the user-defined operation is gone")
            if count(before) != 1 or before.target is not op.apply(base) and str(before.target) != str(op.apply(base)):
                raise Violation("custom-operation-elided", f"reverse applied to {op.apply(base)} gives {before}")
            stats.c["custom-operation-neighbours"] += 1
    finally:
        env.close()


def equal_operations_across_engines(targets, universe, cols, stats):
    """Operations that compare equal are not interchangeable: expression equality ignores which engines support a function.
    The same pair of selections / sorts is merged first in one engine (function restricted to that engine's kind), then
    the equal pair restricted to the other kind in the other engine: each pair is individually valid, so each merge must
    succeed and evaluate to the rows of the two operations in sequence."""
    from lsst.daf.relation import SortTerm

    from vf.core.sqlh import compile_and_run

    a_, b_, c_ = cols
    rows = targets[0]
    leaves = (
        ("L0", cols, rows, 0, "data", (len(rows), len(rows)), "plain"),
        ("L1", cols, rows, 1, "data", (len(rows), len(rows)), "plain"),
    )
    env = Env(leaves)
    try:
        for lit, order in ((-2, (0, 1)), (-1, (1, 0))):
            p1 = ("ge", ("ref", b_), ("lit", 1))
            for eng in order:
                kind = "sql" if eng == 0 else "it"
                p2 = ("gt", ("rneg", kind, ("ref", a_)), ("lit", lit))
                term = (("rneg", kind, ("ref", c_)), True)
                node_sel = ("sel", ("sel", ("leaf", eng), p1), p2)
                node_sort = ("sort", ("sort", ("leaf", eng), ((("ref", b_), True),)), (term,))
                for node in (node_sel, node_sort):
                    what = f"{fmt(node, leaves)} in engine E{eng}"
                    try:
                        rel = env.leafrels[eng]
                        if node[0] == "sel":
                            rel = rel.with_rows_satisfying(lib_p(p1)).with_rows_satisfying(lib_p(p2))
                        else:
                            rel = rel.sorted([SortTerm(lib_e(("ref", b_)), True)]).sorted([SortTerm(lib_e(term[0]), True)])
                    except Exception as e:
                        raise Violation("merge-raised", f"merging two individually valid operations raised {type(e).__name__}: {e}; {what}", exc=e)
                    expected = ev_list(node, leaves)
                    try:
                        got = env.run_iter(rel) if eng else compile_and_run(env, rel)[0][0]
                    except Exception as e:
                        raise Violation("execute-raised", f"{type(e).__name__}: {e}; tree {rel}; {what}", exc=e)
                    same = got == expected if eng else sorted(map(repr, got)) == sorted(map(repr, expected))
                    if not same:
                        raise Violation("exec-changed-rows", f"{what}: tree {rel}: expected {show_rows(expected)} executed {show_rows(got)}")
                    stats.c["equal-operations-across-engines"] += 1
    finally:
        env.close()


def unhashable_literal_pairs(targets, cols, stats):
    """Literal values are arbitrary Python objects (ColumnLiteral.value: Any), e.g. a constant list handed to a user-defined
    column function.  Each operation below is applied alone first (must be accepted and execute); the adjacent pair is then
    two individually valid operations, so merging must not raise and must evaluate to the two in sequence."""
    from lsst.daf.relation import ColumnExpression, SortTerm, iteration

    a_, b_, c_ = cols
    eng = iteration.Engine(name="U", functions={"vf_at": lambda x, seq: seq[x % len(seq)]})

    def at(tag, seq):
        return ColumnExpression.function("vf_at", ColumnExpression.reference(tag), ColumnExpression.literal(list(seq)))

    def f(tag, seq):
        return lambda r: seq[r[tag] % len(seq)]

    ops = {
        "sort[at(a,[2,0,1])]": (lambda r: r.sorted([SortTerm(at(a_, [2, 0, 1]))]), lambda d: sorted(d, key=f(a_, [2, 0, 1]))),
        "sort[-at(b,[1,0])]": (lambda r: r.sorted([SortTerm(at(b_, [1, 0]), False)]), lambda d: sorted(d, key=lambda x: -f(b_, [1, 0])(x))),
        "sort[at(a,[2,0,1]), c]": (
            lambda r: r.sorted([SortTerm(at(a_, [2, 0, 1])), SortTerm(ColumnExpression.reference(c_))]),
            lambda d: sorted(d, key=lambda x: (f(a_, [2, 0, 1])(x), x[c_])),
        ),
        "sel[at(a,[0,1,1]) = 1]": (lambda r: r.with_rows_satisfying(at(a_, [0, 1, 1]).eq(ColumnExpression.literal(1))), lambda d: [x for x in d if f(a_, [0, 1, 1])(x) == 1]),
        "sel[at(c,[1,0,2]) >= 1]": (lambda r: r.with_rows_satisfying(at(c_, [1, 0, 2]).ge(ColumnExpression.literal(1))), lambda d: [x for x in d if f(c_, [1, 0, 2])(x) >= 1]),
    }
    for rows in targets:
        data = [dict(zip(cols, r)) for r in rows]
        leaf = eng.make_leaf(frozenset(cols), iteration.RowSequence(data), name="LU")
        for n1, (ap1, ev1) in ops.items():
            try:
                single = [dict(r) for r in eng.execute(ap1(leaf))]
            except Exception:
                stats.c["unhashable-literal:single-operation-not-accepted"] += 1
                continue
            if single != ev1(data):
                raise Violation("exec-changed-rows", f"{n1} over {data}: expected {ev1(data)} executed {single}")
            for n2, (ap2, ev2) in ops.items():
                try:
                    [dict(r) for r in eng.execute(ap2(leaf))]
                except Exception:
                    continue
                what = f"{n1} then {n2} (the list arguments are unhashable literal values) over {data}"
                try:
                    rel = ap2(ap1(leaf))
                except Exception as e:
                    raise Violation("merge-raised", f"merging two individually valid operations raised {type(e).__name__}: {e}; {what}", exc=e)
                try:
                    got = [dict(r) for r in eng.execute(rel)]
                except Exception as e:
                    raise Violation("execute-raised", f"{type(e).__name__}: {e}; tree {rel}; {what}", exc=e)
                expected = ev2(ev1(data))
                if got != expected:
                    raise Violation("exec-changed-rows", f"{what}: tree {rel}: expected {expected} executed {got}")
                stats.c["unhashable-literal-pairs"] += 1


# ---------------------------------------------------------------- exhaustive slice space


def exhaustive(tier, stats, shard, nshards, run):
    from vf.core.tags import VTag

    tag = VTag("k0", True, 1)
    universe = (tag,)
    slices = [(s, e) for s in range(8) for e in [None] + list(range(s, s + 8))]
    pairs = list(itertools.product(slices, slices))
    for idx, (a, b) in enumerate(pairs):
        if idx % nshards != shard:
            continue
        for n in range(10):
            leaf = ("L0", (tag,), tuple((i,) for i in range(n)), 1, "data", (n, n), "plain")
            case = (universe, (leaf,), ("slice",) + a, ("slice",) + b)
            try:
                run(case)
            except Violation as v:
                v.case = case
                raise
    stats.c["exhaustive_slice_pairs"] += len([1 for i in range(len(pairs)) if i % nshards == shard])
    # grid of parameterised operation pairs (Hypothesis tends to draw the same operation twice for a pair)
    from vf.checks.c04 import grid
    from vf.core.matrix import A, B, C, UNIVERSE

    g = [op for op in grid() if op[0] != "pjoin"]
    targets = [
        ((2, 1, 0), (0, 2, 1), (1, 0, 2), (2, 0, 1), (0, 1, 2)),
        ((1, 1, 0), (0, 1, 1), (1, 1, 0), (0, 0, 1), (0, 1, 1)),
    ]
    idx = 0
    if shard == 0:
        custom_operation_probe(g, targets, UNIVERSE, (A, B, C), stats)
        equal_operations_across_engines(targets, UNIVERSE, (A, B, C), stats)
        unhashable_literal_pairs(targets, (A, B, C), stats)
    for rows in targets:
        leaf = ("L0", (A, B, C), rows, 1, "data", (len(rows), len(rows)), "plain")
        for up in g:
            for down in g:
                idx += 1
                if idx % nshards != shard:
                    continue
                case = (UNIVERSE, (leaf,), up, down)
                try:
                    run(case)
                except Violation as v:
                    v.case = case
                    raise
                stats.c["grid_pairs"] += 1


def attribute(case, v):
    return None
