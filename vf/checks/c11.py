"""C11 — the SQL engine honours sort order for slices and for trailing sorts, or refuses."""
from __future__ import annotations

from hypothesis import strategies as st

from vf.core import codec
from vf.core.base import Violation
from vf.core.env import Env
from vf.core.expr import eval_e
from vf.core.gen import Cfg, st_program
from vf.core.prog import BuildError, build_all, children, describe_case, ev_bag, fmt, kinds, n_ops, schema, walk
from vf.checks.c02 import check_relation, is_order_loss

ID = "C11"
LEVEL = "exploration"
TECHNIQUE = "property-based testing (Hypothesis): sort/slice-dense SQL programs executed on SQLite under both scan orders, list-equality where order is promised, refusal demanded where a sort would be buried"
LEVEL_TEXT = (
    "Bounded exploration: generated SQL programs dense in sort and slice (every relative position to projection, "
    "deduplication, selection, calculation; data with ties and with unique columns) are run on SQLite with "
    "PRAGMA reverse_unordered_selects off and on.  Three gates: G1 slice of a relation whose outermost SELECT carries a "
    "total sort returns exactly that window; G2 trailing total sort followed only by slices / order-compatible "
    "projections / deduplications is returned as a list in that order (also for every prefix relation); G3 a join, "
    "chain or materialization over an operand ending in an un-sliced sort must raise."
    "  Sorts may start with a constant term (bare positive integer literal); in a quarter of the cases the engine "
    "first has to refuse some compilations."
)
LEVEL_NOTE = (
    "trusts: determinacy/order labels of ev_bag (DESIGN 4.4); G2 for sort-slice-dedup relies on SQLite returning a "
    "subquery's order through DISTINCT, which by the property's wording is the library's responsibility"
)
RULE = (
    "case = SQL program biased to sort and slice.  Oracles: as C02 (list equality when the reference labels the result "
    "ordered, multiset when determined, validity otherwise) under both scan orders, for root and prefixes; plus G3: a "
    "successfully built join/chain/materialize whose operand, walking back through calc/proj/sel/dedup, meets a sort "
    "before any slice, walking back through order-compatible projections and deduplications only, is a violation (the call must raise RelationalAlgebraError).  Non-trivial: the program has a "
    "sort directly or indirectly followed by a slice, or a trailing sort, and the sorted rows carry >= 2 distinct "
    "sort keys; distinct by case digest."
)
ASSUMPTIONS = ["P4, P8 as in C02", "ties under a non-total sort make a following LIMIT legitimately ambiguous (validity predicate only)"]


def cfg(tier, steer):
    return Cfg(
        engines=(0,),
        unary=("sort", "slice", "sort", "slice", "proj", "dedup", "sel", "calc"),
        max_ops=8 if tier == "quick" else 12,
        p_binary=0.15,
        markers=("mat",),
        avoid_order_loss=steer,
        special_leaves=False,
        avoid=frozenset(["D9", "D10", "D11"]), prelude=0.5,
    )


def budget(tier):
    return 5000 if tier == "quick" else 100000


@st.composite
def st_uploaded(draw, tier):
    """The same kind of program, but its leaves live in an iteration engine and are transferred into the SQL engine
    first; the tree is then evaluated through Processor.process (which re-applies the operations it finds)."""
    universe, leaves, prog = draw(st_program(dataclasses_replace(cfg(tier, True), markers=(), binary=("chain",), max_leaves=2)))
    leaves = tuple(l[:3] + (1,) + l[4:6] + ("plain",) for l in leaves)

    def lift(n):
        if n[0] == "leaf":
            return ("xfer", n, 0)
        if n[0] in ("chain", "join"):
            return (n[0], lift(n[1]), lift(n[2])) + tuple(n[3:])
        return (n[0], lift(n[1])) + tuple(n[2:])

    memo = {}

    def lift_shared(n):
        if id(n) not in memo:
            if n[0] == "leaf":
                memo[id(n)] = ("xfer", n, 0)
            elif n[0] in ("chain", "join"):
                memo[id(n)] = (n[0], lift_shared(n[1]), lift_shared(n[2])) + tuple(n[3:])
            else:
                memo[id(n)] = (n[0], lift_shared(n[1])) + tuple(n[2:])
        return memo[id(n)]

    return ("uploaded", (universe, leaves, lift_shared(prog)))


def dataclasses_replace(c, **kw):
    import dataclasses

    return dataclasses.replace(c, **kw)


def strategy(tier):
    return st.one_of(
        st_program(cfg(tier, True)), st_program(cfg(tier, True)), st_program(cfg(tier, False)), st_uploaded(tier), st_uploaded(tier)
    )


def buried_sort(p):
    """Does the operand's trailing operation sequence consist of a sort followed only by order-compatible
    projections and deduplications (the operations through which the property promises the order survives), with no
    slice?  Calculations and selections end the walk: over a compound SELECT they legitimately start a new query
    level, and nothing in the statement says that must be refused."""
    from vf.core.expr import cols_e

    kept = None
    while True:
        k = p[0]
        if k == "sort":
            need = frozenset().union(*[cols_e(e) for e, _ in p[2]])
            return kept is None or need <= kept
        if k == "dedup":
            p = p[1]
            continue
        if k == "proj":
            kept = frozenset(p[2]) if kept is None else kept & frozenset(p[2])
            p = p[1]
            continue
        return False


def run_uploaded(case, stats):
    """Programs whose leaves are uploaded from an iteration engine: evaluated through Processor.process."""
    from lsst.daf.relation import ColumnError, EngineError

    from vf.core.proc import execute_processed, make_processor
    from vf.core.prog import compare, ev_multi

    universe, leaves, prog = case[1]
    truth = ev_multi(prog, leaves)
    env = Env(leaves)
    try:
        rels = {}
        try:
            build_all(prog, env, rels)
        except BuildError as b:
            if is_order_loss(b.exc) or isinstance(b.exc, (ColumnError, EngineError)):
                stats.c["uploaded:build-refused"] += 1
                return
            raise Violation("build-raised", f"{fmt(b.node, leaves)}: {type(b.exc).__name__}: {b.exc}", exc=b.exc)
        root = rels[id(prog)]
        try:
            got = execute_processed(env, make_processor(env).process(root))
        except Exception:
            stats.c["uploaded:not-executable"] += 1  # C07 / C08 territory
            return
        bad = compare(truth, got)
        if bad:
            raise Violation("rows-differ", f"[uploaded leaves, via Processor] {bad}; program {fmt(prog, leaves)}; tree {root}")
        stats.c["uploaded:compared"] += 1
        if truth.ordered and len(truth.rows) >= 2:
            stats.c["g2:ordered-list-compared"] += 1
            stats.mark_nontrivial(codec.digest(case), lambda: describe(case), cls="uploaded/ordered")
    finally:
        env.close()


def run_case(case, stats):
    if case[0] == "uploaded":
        return run_uploaded(case, stats)
    universe, leaves, prog = case
    env = Env(leaves)
    try:
        if int(codec.digest(case)[2:4], 16) % 4 == 0:
            from vf.core.sqlh import failed_compilations

            failed_compilations(env, stats)
        rels = {}
        try:
            build_all(prog, env, rels)
        except BuildError as b:
            from lsst.daf.relation import ColumnError, EngineError

            if is_order_loss(b.exc):
                stats.c["build:order-loss-refused"] += 1
                if b.node[0] in ("chain", "join", "mat") and any(buried_sort(c) for c in children(b.node)):
                    stats.c["g3:refusal-demanded-and-given"] += 1
            elif isinstance(b.exc, (ColumnError, EngineError)):
                stats.c["build:rejected-" + type(b.exc).__name__] += 1
            else:
                raise Violation("build-raised", f"factory call for {fmt(b.node, leaves)} raised {type(b.exc).__name__}: {b.exc}", exc=b.exc)
        # G3: a sort buried without refusal
        for node in walk(prog):
            if id(node) in rels and node[0] in ("chain", "join", "mat"):
                for c in children(node):
                    if buried_sort(c) and rels[id(node)] is not rels[id(c)]:
                        raise Violation(
                            "order-silently-dropped",
                            f"{node[0]} accepted an operand ending in an un-sliced sort: operand {fmt(c, leaves)}; result {rels[id(node)]}",
                        )
        memo = {}
        built = [n for n in walk(prog) if id(n) in rels and n[0] != "leaf"]
        from lsst.daf.relation import Materialization

        from vf.core.prog import lib_nodes

        nontriv = False
        for node in built:
            rel = rels[id(node)]
            if any(isinstance(r, Materialization) and r.payload is None for r in lib_nodes(rel)):
                stats.c["skipped:needs-processor"] += 1
                continue
            res = check_relation(env, node, rel, leaves, memo, rels, stats, "root" if node is prog else "prefix")
            if res is None:
                continue
            if res.ordered and len(res.rows) >= 2:
                keys = {tuple(eval_e(e, r) for e, _ in res.oterms) for r in res.rows}
                if len(keys) >= 2:
                    stats.c["g2:ordered-list-compared"] += 1
                    nontriv = True
        ks = kinds(prog)
        if nontriv and "sort" in ks:
            cls = "sort" + ("+slice" if "slice" in ks else "") + ("+dedup" if "dedup" in ks else "") + ("+proj" if "proj" in ks else "")
            stats.mark_nontrivial(codec.digest(case), lambda: describe(case), cls=cls)
    finally:
        env.close()


EXHAUSTIVE_NOTE = "SELECT-rule matrix of vf/core/matrix.py: every subset of {sort, projection, deduplication, slice} on four bases followed by every one (all bases) or two (leaf base; thorough: all bases) of 13 operations, judged with the order-aware comparison"


def exhaustive(tier, stats, shard, nshards, run):
    from vf.core.matrix import select_matrix

    plans = [(1, ("leaf", "sel", "chain", "join")), (2, ("leaf",) if tier == "quick" else ("leaf", "sel", "chain", "join"))]
    idx = 0
    for steps, bases in plans:
        for label, case in select_matrix(steps, 0, bases):
            idx += 1
            if idx % nshards != shard:
                continue
            try:
                run(case)
            except Violation as v:
                v.case = case
                raise
            stats.c["matrix_cases"] += 1


def describe(case):
    if case[0] == "uploaded":
        return describe_case(*case[1], leaves_uploaded_through_processor=True)
    return describe_case(*case)


def attribute(case, v):
    return None
