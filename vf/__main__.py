import sys

from vf.runner import main

sys.exit(main())
