"""Coverage-guided campaign (atheris / libFuzzer) over the same cases and oracles as the Hypothesis search.

usage (by the runner, as a subprocess):  python -m vf.fuzz <ID> <tier> <seed> <runs> <outfile> [<corpus dir>]

The bytes libFuzzer mutates are decoded by Hypothesis (`test.hypothesis.fuzz_one_input`) with the check's own strategy, so
every input is a well-formed case and the oracle is the check's `run_case`.  lsst.daf.relation is imported under
`atheris.instrument_imports`, so the coverage signal comes from the library under test.  libFuzzer never returns from
`Fuzz()`, hence results are written to <outfile> (JSON) every 500 executions and at a violation; exit status 0 = the
budget was used up, 77 = violation (details in <outfile>), anything else = harness problem.
"""
from __future__ import annotations

import json
import os
import sys
import time

ROOT = os.path.dirname(os.path.dirname(os.path.abspath(__file__)))
DEPS = os.path.join(ROOT, ".deps")


def main(argv):
    cid, tier, seed, runs, outfile = argv[0], argv[1], int(argv[2]), int(argv[3]), argv[4]
    corpus = argv[5] if len(argv) > 5 else None
    if DEPS not in sys.path:
        sys.path.append(DEPS)
    import atheris

    from vf import runner

    if runner.REPO_PY not in sys.path[:1]:
        sys.path.insert(0, runner.REPO_PY)
    with atheris.instrument_imports(include=["lsst.daf.relation"], enable_loader_override=False):
        import lsst.daf.relation  # noqa: F401
        import lsst.daf.relation.iteration  # noqa: F401
        import lsst.daf.relation.sql  # noqa: F401
    runner.setup_path()
    from hypothesis import HealthCheck, given, settings

    from vf.core.base import Violation

    check = runner.load_check(cid)
    known = runner.load_known(cid)
    open_keys = frozenset(e["key"] for e in known if e.get("status") == "open")
    stats = runner.Stats()
    t0 = time.time()
    state = {"n": 0}

    def dump(failure=None):
        doc = {"stats": stats.export(), "wall": time.time() - t0, "executions": state["n"], "failure": failure}
        tmp = outfile + ".tmp"
        with open(tmp, "w") as f:
            json.dump(doc, f, default=str)
        os.replace(tmp, outfile)

    @settings(deadline=None, database=None, suppress_health_check=list(HealthCheck), print_blob=False)
    @given(check.strategy(tier))
    def test(case):
        try:
            runner.run_one(check, case, stats, open_keys)
        except Violation as v:
            # confirm on a direct re-run, as the Hypothesis search does
            try:
                runner.run_one(check, case, runner.Stats(), open_keys)
            except Violation as v2:
                dump(runner._failure(check, case, v2))
                os._exit(77)
            if v.extra.get("nondeterministic"):
                v.detail += " [observed in this run's history; not reproducible from the case alone]"
                dump(runner._failure(check, case, v))
                os._exit(77)
            stats.c["fuzz:flaky-not-reproduced"] += 1

    fuzz_one = test.hypothesis.fuzz_one_input

    def one(data):
        state["n"] += 1
        fuzz_one(data)
        if state["n"] % 500 == 0 or state["n"] >= runs:
            dump()

    dump()
    args = [sys.argv[0], f"-runs={runs}", f"-seed={seed if seed else 1}", "-max_len=4096", "-print_final_stats=0", "-verbosity=0"]
    if corpus:
        os.makedirs(corpus, exist_ok=True)
        args.append(corpus)
    atheris.Setup(args, one)
    atheris.Fuzz()


if __name__ == "__main__":
    main(sys.argv[1:])
