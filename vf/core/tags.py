"""Column tags with a *generated* hash, so that set iteration order is part of the case."""
from __future__ import annotations

import dataclasses


@dataclasses.dataclass(frozen=True)
class VTag:
    qualified_name: str
    is_key: bool = True
    h: int = 0

    def __hash__(self) -> int:
        return self.h

    def __repr__(self) -> str:
        return self.qualified_name

    def __str__(self) -> str:
        return self.qualified_name


def name_of(tag) -> str:
    return tag.qualified_name


def sorted_tags(tags):
    return sorted(tags, key=name_of)
