"""JSON encoding of cases (tuples, frozensets, VTags, dicts with non-string keys) for replay files."""
from __future__ import annotations

import hashlib
import json

from .tags import VTag


def enc(x):
    if x is None or isinstance(x, (bool, int, str)):
        return x
    if isinstance(x, float):
        return {"f": repr(x)}
    if isinstance(x, VTag):
        return {"tag": [x.qualified_name, x.is_key, x.h]}
    if isinstance(x, tuple):
        return {"t": [enc(i) for i in x]}
    if isinstance(x, list):
        return [enc(i) for i in x]
    if isinstance(x, (frozenset, set)):
        items = [enc(i) for i in x]
        items.sort(key=lambda e: json.dumps(e, sort_keys=True))
        return {"fs": items}
    if isinstance(x, dict):
        return {"d": [[enc(k), enc(v)] for k, v in x.items()]}
    if isinstance(x, range):
        return {"r": [x.start, x.stop, x.step]}
    raise TypeError(f"cannot encode {type(x)}: {x!r}")


def dec(x, _intern=None):
    """Decode; structurally equal tuples decode to the *same* object, so that sub-programs that were shared (used
    twice) in the generated case are shared again in the replayed one (build_all memoizes relations by node identity)."""
    if _intern is None:
        _intern = {}
    if x is None or isinstance(x, (bool, int, str)):
        return x
    if isinstance(x, list):
        return [dec(i, _intern) for i in x]
    if isinstance(x, dict):
        if "tag" in x:
            return VTag(*x["tag"])
        if "t" in x:
            t = tuple(dec(i, _intern) for i in x["t"])
            try:
                return _intern.setdefault(t, t)
            except TypeError:
                return t
        if "fs" in x:
            return frozenset(dec(i, _intern) for i in x["fs"])
        if "d" in x:
            return {dec(k, _intern): dec(v, _intern) for k, v in x["d"]}
        if "r" in x:
            return range(*x["r"])
        if "f" in x:
            return float(x["f"])
    raise TypeError(f"cannot decode {x!r}")


def dumps(x) -> str:
    return json.dumps(enc(x), sort_keys=True)


def digest(x) -> str:
    return hashlib.blake2b(dumps(x).encode(), digest_size=8).hexdigest()
