"""A real Processor for multi-engine trees: SQL <-> iteration transfers through SQLite, real materializations."""
from __future__ import annotations

import itertools

import sqlalchemy as sa

from .env import DatabaseError, db
from .tags import name_of, sorted_tags

_N = itertools.count()


def make_processor(env):
    from lsst.daf.relation import Processor, iteration, sql

    class RealProcessor(Processor):
        def __init__(self):
            self.log = []  # (hook, source/target relation, destination engine | None, name | None)
            self.tables = []

        # -- helpers
        def fetch(self, rel):
            eng = rel.engine
            if isinstance(eng, sql.Engine):
                ex = eng.to_executable(rel)
                return env.run_sql(ex, list(rel.columns))
            return [dict(r) for r in eng.execute(rel)]

        def payload_for(self, engine, columns, rows, name):
            if isinstance(engine, sql.Engine):
                cols = sorted_tags(columns)
                tname = f"x{env.case_no}_{next(_N)}_{name or 'xfer'}"
                columns_ = [sa.Column(name_of(c), sa.Integer) for c in cols] or [sa.Column("dummy_", sa.Integer)]
                table = sa.Table(tname, env.md, *columns_)
                table.create(db())
                env.tables.append(table)
                if rows:
                    db().execute(table.insert(), [{name_of(c): r[c] for c in cols} or {"dummy_": 0} for r in rows])
                return sql.Payload(table, columns_available={c: table.c[name_of(c)] for c in cols})
            return iteration.RowSequence(rows)

        # -- hooks
        def transfer(self, source, destination, materialize_as):
            self.log.append(("transfer", source, destination, materialize_as))
            rows = self.fetch(source)
            return self.payload_for(destination, source.columns, rows, materialize_as)

        def materialize(self, target, name):
            self.log.append(("materialize", target, None, name))
            eng = target.engine
            if isinstance(eng, sql.Engine):
                rows = self.fetch(target)
                return self.payload_for(eng, target.columns, rows, name)
            return eng.execute(target).materialized()

    return RealProcessor()


def execute_processed(env, rel):
    """Rows of an already processed relation in its final engine."""
    from lsst.daf.relation import sql

    if isinstance(rel.engine, sql.Engine):
        ex = rel.engine.to_executable(rel)
        return env.run_sql(ex, list(rel.columns))
    return [dict(r) for r in rel.engine.execute(rel)]
