"""A real Processor for multi-engine trees: SQL <-> iteration transfers through SQLite, real materializations."""
from __future__ import annotations

import itertools

import sqlalchemy as sa

from .env import DatabaseError, db, take_rows
from .tags import name_of, sorted_tags

_N = itertools.count()


def make_processor(env, lazy_transfers=False):
    """lazy_transfers: a transfer between two iteration engines that is not going to be materialized (materialize_as is
    None) returns the source engine's own - possibly lazy - row iterable instead of a list.  The hook's contract asks for
    a payload "appropriate for caching" only when materialize_as is given."""
    from lsst.daf.relation import Processor, iteration, sql

    class RealProcessor(Processor):
        def __init__(self):
            self.log = []  # (hook, source/target relation, destination engine | None, name | None)
            self.tables = []
            self.fail_at = None  # fault injection: the hook call with this index (counted from now) raises InjectedFault
            self.fault_fired = False
            self.completed = set()  # indices into log of hook calls that returned a payload

        # -- helpers
        def fetch(self, rel):
            eng = rel.engine
            if isinstance(eng, sql.Engine):
                ex = eng.to_executable(rel)
                return env.run_sql(ex, list(rel.columns))
            return take_rows(eng.execute(rel), f"(Processor hook evaluating {str(rel)[:200]})")

        def payload_for(self, engine, columns, rows, name):
            if isinstance(engine, sql.Engine):
                cols = sorted_tags(columns)
                tname = f"x{env.case_no}_{next(_N)}_{name or 'xfer'}"
                columns_ = [sa.Column(name_of(c), sa.Integer) for c in cols] or [sa.Column("dummy_", sa.Integer)]
                table = sa.Table(tname, env.md, *columns_)
                table.create(db())
                env.tables.append(table)
                if rows:
                    db().execute(table.insert(), [{name_of(c): r[c] for c in cols} or {"dummy_": 0} for r in rows])
                return sql.Payload(table, columns_available={c: table.c[name_of(c)] for c in cols})
            return iteration.RowSequence(rows)

        def _maybe_fail(self):
            if self.fail_at is not None:
                if self.fail_at <= 0:
                    self.fail_at = None
                    self.fault_fired = True
                    from .env import InjectedFault

                    raise InjectedFault("injected fault in a Processor hook")
                self.fail_at -= 1

        # -- hooks
        def transfer(self, source, destination, materialize_as):
            self._maybe_fail()
            self.log.append(("transfer", source, destination, materialize_as))
            idx = len(self.log) - 1
            if lazy_transfers and materialize_as is None and not isinstance(destination, sql.Engine) and not isinstance(source.engine, sql.Engine):
                payload = source.engine.execute(source)
                self.completed.add(idx)
                return payload
            rows = self.fetch(source)
            payload = self.payload_for(destination, source.columns, rows, materialize_as)
            self.completed.add(idx)
            return payload

        def materialize(self, target, name):
            self._maybe_fail()
            self.log.append(("materialize", target, None, name))
            idx = len(self.log) - 1
            eng = target.engine
            if isinstance(eng, sql.Engine):
                rows = self.fetch(target)
                payload = self.payload_for(eng, target.columns, rows, name)
            else:
                payload = eng.execute(target).materialized()
            self.completed.add(idx)
            return payload

    return RealProcessor()


def execute_processed(env, rel):
    """Rows of an already processed relation in its final engine."""
    from lsst.daf.relation import sql

    if isinstance(rel.engine, sql.Engine):
        ex = rel.engine.to_executable(rel)
        return env.run_sql(ex, list(rel.columns))
    return take_rows(rel.engine.execute(rel), f"(executing the processed tree {str(rel)[:200]})")
