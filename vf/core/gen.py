"""Hypothesis strategies: tag universes, leaves, type-directed program generation."""
from __future__ import annotations

import dataclasses

from hypothesis import strategies as st

from .expr import st_expr, st_pred
from .prog import engine_of, leaf_indices, schema
from .tags import VTag, sorted_tags


@dataclasses.dataclass(frozen=True)
class Cfg:
    engines: tuple = (0,)  # engines leaves may live in / transfers may go to
    max_leaves: int = 3
    max_cols: int = 4
    max_rows: int = 6
    min_ops: int = 1
    max_ops: int = 8
    unary: tuple = ("calc", "proj", "sel", "dedup", "sort", "slice")
    binary: tuple = ("chain", "join")
    markers: tuple = ()  # subset of ("mat", "xfer")
    regimes: tuple = ("allkey", "allkey", "mixed")
    special_leaves: bool = True  # doomed / identity / zero-column leaves
    loose_bounds: bool = True
    sql_variants: tuple = ("plain", "plain", "renamed", "alias", "subquery", "where", "extra", "shifted")
    iter_variants: tuple = ("plain", "plain", "custom", "mapping")  # payload class of iteration-engine leaves
    vmin: int = -3
    vmax: int = 3
    p_binary: float = 0.25
    avoid_order_loss: bool = True  # steer away from binary ops / materialize on an un-sliced sort (SQL)
    pred_depth: int = 2
    p_plit: int = 10  # percentage of atomic predicates that are TRUE / FALSE literals
    p_join_pred: int = 33  # percentage of joins that carry a predicate
    p_restricted: int = 0  # percentage of calculation / sort expressions using an engine-restricted function
    p_wrap: int = 10  # percentage of predicates combined with a constant-foldable operand (OR[p, FALSE], AND[TRUE, p], ...)
    p_cfun: int = 0  # percentage of calculations / sorts / selections of the main program using the engine-specific function
    p_meth: int = 0  # percentage of iteration-engine calculations wrapped in a method of the value (int.bit_length)
    p_member: int = 0  # percentage of predicates that are a membership test most rows pass (wide ascending / descending range)
    expr_depth: int = 2
    prelude: float = 0.0  # probability of starting from a drawn SELECT state (subset of sort/proj/dedup/slice)
    avoid: frozenset = frozenset()  # keys of known findings whose trigger region generation steers around


# ---------------------------------------------------------------- tags


@st.composite
def st_universe(draw, regime=None, n=None):
    n = n or draw(st.integers(5, 7))
    scheme = draw(st.sampled_from(["ordered", "colliding", "arbitrary", "colliding"]))
    if scheme == "ordered":
        hs = list(range(1, n + 1))
    elif scheme == "colliding":
        base = draw(st.lists(st.integers(0, 2), min_size=n, max_size=n))
        hs = [b + 8 * i for i, b in enumerate(base)]
    else:
        hs = draw(st.lists(st.integers(0, 2**20), min_size=n, max_size=n, unique=True))
    regime = regime or "allkey"
    if regime == "allkey":
        keys = [True] * n
    else:
        keys = draw(st.lists(st.booleans(), min_size=n, max_size=n))
        keys[0] = True
    return tuple(VTag(f"k{i}", keys[i], hs[i]) for i in range(n))


# ---------------------------------------------------------------- leaves


@st.composite
def st_leaf(draw, cfg, universe, index, earlier=()):
    eng = draw(st.sampled_from(cfg.engines))
    name = f"L{index}"
    kind = "data"
    if cfg.special_leaves:
        kind = draw(st.sampled_from(["data"] * 12 + ["doomed", "identity"]))
    clone = [l for l in earlier if l[4] == "data" and l[1]]
    if clone and draw(st.integers(0, 9)) < 4:
        cols = draw(st.permutations(draw(st.sampled_from(clone))[1]))
        cols = tuple(cols)
    else:
        lo = 0 if cfg.special_leaves and draw(st.integers(0, 14)) == 0 else 1
        ncols = 0 if lo == 0 else draw(st.integers(1, cfg.max_cols))
        cols = tuple(draw(st.permutations(universe))[:ncols])
    if kind == "identity":
        return (name, (), ((),), eng, "identity", (1, 1), "plain")
    if kind == "doomed":
        return (name, cols, (), eng, "doomed", (0, 0), "plain")
    nrows = draw(st.integers(0, cfg.max_rows))
    keycols = [c for c in cols if c.is_key]
    nonkey = [c for c in cols if not c.is_key]
    val = st.integers(cfg.vmin, cfg.vmax) if draw(st.integers(0, 3)) else st.integers(0, 1)
    if not nonkey:
        rows = draw(st.lists(st.tuples(*[val for _ in cols]), min_size=nrows, max_size=nrows))
    else:
        # non-key columns are a function of the leaf's key columns (documented is_key assumption, P1)
        coefs = {c: draw(st.lists(st.integers(-2, 2), min_size=len(keycols) + 1, max_size=len(keycols) + 1)) for c in nonkey}
        keyrows = draw(st.lists(st.tuples(*[val for _ in keycols]), min_size=nrows, max_size=nrows))
        rows = []
        for kr in keyrows:
            kv = dict(zip(keycols, kr))
            row = []
            for c in cols:
                if c.is_key:
                    row.append(kv[c])
                else:
                    cf = coefs[c]
                    row.append(cf[0] + sum(a * v for a, v in zip(cf[1:], kr)))
            rows.append(tuple(row))
    rows = tuple(rows)
    n = len(rows)
    bounds = (n, n)
    if cfg.loose_bounds:
        shape = draw(st.sampled_from(["exact", "exact", "exact", "zero_lo", "open_hi", "open", "loose"]))
        if shape == "zero_lo":
            bounds = (0, n)
        elif shape == "open_hi":
            bounds = (n, None)
        elif shape == "open":
            bounds = (0, None)
        elif shape == "loose":
            bounds = (draw(st.integers(0, n)), n + draw(st.integers(0, 3)))
    variant = draw(st.sampled_from(cfg.sql_variants if eng == 0 else cfg.iter_variants))
    return (name, cols, rows, eng, "data", bounds, variant)


# ---------------------------------------------------------------- operations


@st.composite
def st_sort_terms(draw, cols, total_bias=True, max_terms=3, depth=1, restricted=0):
    cols = sorted_tags(cols)
    if total_bias and draw(st.booleans()):
        perm = draw(st.permutations(cols))
        return tuple((("ref", t), draw(st.booleans())) for t in perm)
    terms = tuple(
        draw(
            st.lists(
                st.tuples(st_expr(cols, depth, need_ref=True, restricted=restricted), st.booleans()), min_size=1, max_size=max_terms
            )
        )
    )
    if draw(st.integers(0, 7)) == 0:
        # a constant term (a bare positive integer literal) ahead of the real ones: it orders nothing
        terms = ((("lit", draw(st.integers(1, 3))), draw(st.booleans())),) + terms[: max_terms - 1]
    return terms


@st.composite
def st_slice(draw, max_start=4, max_len=4):
    r = draw(st.integers(0, 19))
    if r == 0:
        return (0, 0)
    if r == 1:
        k = draw(st.integers(0, max_start))
        return (k, k)
    s = draw(st.integers(0, max_start))
    if draw(st.integers(0, 2)) == 0:
        return (s, None)
    return (s, s + draw(st.integers(0, max_len)))


# after an operation of the key kind, these kinds are three times as likely: they are the sequences on which the
# engines' rewrite rules (merging into one SELECT, nesting subqueries, commutation) fire
MOTIFS = {
    "slice": ("sel", "sort", "dedup", "slice"),
    "dedup": ("proj", "slice", "sort"),
    "sort": ("slice", "proj", "dedup", "sort"),
    "chain": ("dedup", "proj", "sort", "slice", "sel", "calc"),
    "proj": ("calc", "dedup", "proj"),
    "calc": ("proj", "sel", "sort"),
    "join": ("proj", "slice", "dedup", "sel"),
    "sel": ("slice", "sel"),
}


TRIVIAL_FALSE = (("plit", False), ("or", ()), ("not", ("plit", True)), ("and", (("plit", True), ("plit", False))))
TRIVIAL_TRUE = (("plit", True), ("and", ()), ("not", ("plit", False)), ("or", (("plit", False), ("plit", True))))


@st.composite
def st_wrapped_pred(draw, cols, cfg, depth=None):
    """A predicate, possibly combined with constant-foldable operands in a way that must not change its meaning."""
    if cfg.p_member and draw(st.integers(0, 99)) < cfg.p_member:
        item = ("ref", draw(st.sampled_from(sorted_tags(cols)))) if cols and draw(st.booleans()) else ("lit", draw(st.integers(-1, 2)))
        hi, lo, step = draw(st.integers(3, 7)), draw(st.integers(-7, -2)), draw(st.sampled_from([1, 1, 2]))
        p = ("inrange", item, (hi, lo, -step) if draw(st.booleans()) else (lo, hi, step))
    else:
        p = draw(st_pred(cols, cfg.pred_depth if depth is None else depth, plit=cfg.p_plit))
    if draw(st.integers(0, 99)) >= cfg.p_wrap:
        return p
    conn = draw(st.sampled_from(["or", "and"]))
    neutral = draw(st.sampled_from(TRIVIAL_FALSE if conn == "or" else TRIVIAL_TRUE))
    ops = [p, neutral]
    if draw(st.booleans()):
        ops.append(draw(st.sampled_from(TRIVIAL_FALSE if conn == "or" else TRIVIAL_TRUE)))
    ops = draw(st.permutations(ops))
    return (conn, tuple(ops))


@st.composite
def st_unary_node(draw, src, cols, universe, kinds, cfg, counter=None, hidden=()):
    """Draw a unary operation valid for a source with columns `cols`.  Returns a node or None."""
    kinds = list(kinds)
    pref = [k for k in MOTIFS.get(src[0], ()) if k in kinds]
    kinds = kinds + pref + pref
    free = [t for t in universe if t not in cols]
    if not cols:
        kinds = [k for k in kinds if k not in ("calc", "sort")]
    if not free:
        kinds = [k for k in kinds if k != "calc"]
    if not kinds:
        return None
    k = draw(st.sampled_from(kinds))
    if k == "calc":
        hid = [t for t in hidden if t in free]
        tag = draw(st.sampled_from(hid)) if hid and draw(st.booleans()) else draw(st.sampled_from(free))
        return ("calc", src, tag, draw(st_expr(cols, cfg.expr_depth, need_ref=True, restricted=cfg.p_restricted)))
    if k == "proj":
        order = draw(st.permutations(sorted_tags(cols))) if cols else []
        keep = draw(st.integers(0, len(order)))
        if len(order) > 1 and draw(st.booleans()):
            keep = len(order) - 1
        return ("proj", src, tuple(order[:keep]))
    if k == "sel":
        return ("sel", src, draw(st_wrapped_pred(cols, cfg)))
    if k == "dedup":
        return ("dedup", src)
    if k == "sort":
        return ("sort", src, draw(st_sort_terms(cols, restricted=cfg.p_restricted)))
    if k == "slice":
        s, e = draw(st_slice())
        return ("slice", src, s, e)
    if k == "mat":
        n = counter[0]
        counter[0] += 1
        return ("mat", src, f"m{n}")
    raise AssertionError(k)


def _unsliced_sort(prog):
    """Program-level approximation of 'a sort that a binary operation / materialization would bury'."""
    k = prog[0]
    while True:
        k = prog[0]
        if k == "sort":
            return True
        if k in ("calc", "proj", "sel", "dedup"):
            prog = prog[1]
            continue
        return False


def _spine_chains(prog):
    """Chain nodes of the program both of whose operands contain the same sub-program (self-duplication)."""
    from .prog import walk

    for n in walk(prog):
        if n[0] == "chain":
            a = {id(x) for x in walk(n[1])}
            if any(id(x) in a and x[0] != "leaf" for x in walk(n[2])) or n[1] is n[2]:
                yield n


def _has_kind(prog, kind):
    from .prog import walk

    return any(n[0] == kind for n in walk(prog))


def _steer_unary(node, src, avoid, cols=None):
    """Rewrite a drawn unary node so that it stays out of the trigger region of the findings in `avoid`."""
    if node is None or not avoid:
        return node
    from .known import sort_columns_below

    if "D9" in avoid and node[0] == "sort" and _has_kind(src, "chain"):
        terms = tuple((e, asc) for e, asc in node[2] if e[0] == "ref")
        if not terms:
            return None
        node = ("sort", src, terms)
    if "D10" in avoid and node[0] == "proj":
        need = sort_columns_below(src)
        missing = [t for t in need if t not in node[2] and (cols is None or t in cols)]
        if missing:
            from .prog import children  # noqa: F401

            have = set(node[2])
            keep = tuple(node[2]) + tuple(t for t in sorted(missing, key=lambda t: t.qualified_name) if t not in have)
            node = ("proj", src, keep)
    return node


@st.composite
def st_program(draw, cfg, universe=None, leaves=None):
    """Returns (universe, leaves, prog).

    A *main* program is grown operation by operation; binary operations take their partner from the earlier versions
    of the main program, from the other leaves, or from short side programs grown over the other leaves.
    """
    regime = draw(st.sampled_from(cfg.regimes))
    if universe is None:
        universe = draw(st_universe(regime))
    if leaves is None:
        nl = draw(st.integers(1, cfg.max_leaves))
        leaves = []
        for i in range(nl):
            leaves.append(draw(st_leaf(cfg, universe, i, leaves)))
        leaves = tuple(leaves)
    start = draw(st.integers(0, len(leaves) - 1))
    main = ("leaf", start)
    sides = []
    for i in range(len(leaves)):
        if i == start:
            continue
        side = ("leaf", i)
        for _ in range(draw(st.sampled_from([0, 0, 1, 2]))):
            node = draw(st_unary_node(side, schema(side, leaves), universe, cfg.unary, cfg))
            if node is not None:
                side = node
        sides.append(side)
        if side[0] != "leaf":
            sides.append(("leaf", i))
    if cfg.prelude and draw(st.integers(0, 99)) < cfg.prelude * 100:
        # build one SELECT level carrying a drawn subset of {sort, projection, deduplication, slice}, optionally over a
        # selection / calculation / chain, so that every (state, next operation) cell of the engine's rules is reached
        base = draw(st.sampled_from(["leaf", "leaf", "sel", "calc", "chain"]))
        if base in ("sel", "calc"):
            node = draw(st_unary_node(main, schema(main, leaves), universe, (base,), cfg))
            main = node or main
        elif base == "chain" and "chain" in cfg.binary:
            other = draw(st_unary_node(main, schema(main, leaves), universe, ("sel", "dedup"), cfg)) or main
            main = ("chain", main, other)
        order = ["sort", "proj", "dedup", "slice"]
        if draw(st.integers(0, 3)) == 0:
            order = list(draw(st.permutations(order)))
        flags = draw(st.integers(1, 15))
        for bit, k in enumerate(order):
            if flags >> bit & 1 and k in cfg.unary:
                node = draw(st_unary_node(main, schema(main, leaves), universe, (k,), cfg))
                if node is not None:
                    main = node
    history = [main]
    counter = [0]
    # steering around the trigger regions of open known findings (DESIGN 3.5); one case in ten is left un-steered
    avoid = cfg.avoid if (cfg.avoid and draw(st.integers(0, 9)) > 0) else frozenset()
    nops = max(draw(st.integers(cfg.min_ops, cfg.max_ops)), draw(st.integers(cfg.min_ops, cfg.max_ops)))
    made = 0
    attempts = 0
    sql = lambda e: e == 0 and cfg.avoid_order_loss  # noqa: E731
    while made < nops and attempts < nops * 3:
        attempts += 1
        cols = schema(main, leaves)
        eng = engine_of(main, leaves)
        choice = "u"
        r = draw(st.integers(0, 99))
        boost = 2 if main[0] in ("slice", "proj", "dedup") else 1
        if main[0] == "calc" and any(schema(h, leaves) == cols and engine_of(h, leaves) == eng for h in history[:-1]):
            boost = 4  # a calculation re-created a column an earlier version of the program had: chain them
        if cfg.binary and r < cfg.p_binary * 100 * boost:
            choice = draw(st.sampled_from(cfg.binary))
        elif cfg.markers and r >= 100 - 6 * len(cfg.markers):
            choice = draw(st.sampled_from(cfg.markers))
        node = None
        steer = sql(eng) and draw(st.integers(0, 9)) > 0
        if choice == "u":
            hidden = [t for i in sorted(leaf_indices(main)) for t in leaves[i][1] if t not in cols]
            node = draw(st_unary_node(main, cols, universe, cfg.unary, cfg, hidden=hidden))
            node = _steer_unary(node, main, avoid, cols)
            if cfg.p_meth and node is not None and node[0] == "calc" and eng != 0 and draw(st.integers(0, 99)) < cfg.p_meth:
                node = ("calc", node[1], node[2], ("meth", node[3]))
            if cfg.p_cfun and node is not None and node[0] in ("calc", "sort", "sel") and cols and draw(st.integers(0, 99)) < cfg.p_cfun:
                # the user-defined function means something else in every engine: whatever evaluates this operation
                # must be the engine the program put it in
                if node[0] == "calc":
                    node = ("calc", node[1], node[2], ("cfun", eng, node[3]))
                elif node[0] == "sort" and node[2]:
                    (e0, asc0), rest = node[2][0], node[2][1:]
                    node = ("sort", node[1], ((("cfun", eng, e0), asc0),) + tuple(rest))
                elif node[0] == "sel":
                    t = draw(st.sampled_from(sorted_tags(cols)))
                    extra = ("ge", ("cfun", eng, ("ref", t)), ("lit", draw(st.integers(2, 6))))
                    node = ("sel", node[1], ("and", (node[2], extra)) if draw(st.booleans()) else ("or", (extra, node[2])))
        elif choice == "mat":
            if not (steer and _unsliced_sort(main)):
                node = ("mat", main, f"m{counter[0]}")
                counter[0] += 1
        elif choice == "mark":
            if eng != 0 and main[0] != "mark":
                node = ("mark", main)
        elif choice == "xfer":
            dests = [e for e in cfg.engines if e != eng]
            if dests:
                node = ("xfer", main, draw(st.sampled_from(dests)))
        elif choice == "chain":
            if steer and _unsliced_sort(main):
                continue
            # chaining the main program with (a variation of) itself doubles the expanded tree; str / repr / hash of the
            # library relations are linear in the *expanded* size, so self-chaining is limited to three levels
            selfdup = sum(1 for n in _spine_chains(main))
            pool_ = (history if selfdup < 3 else [h for h in history if h[0] == "leaf"]) + sides
            cands = [p for p in pool_ if engine_of(p, leaves) == eng and schema(p, leaves) == cols]
            if steer:
                cands = [p for p in cands if not _unsliced_sort(p)]
            other = None
            if cands and draw(st.integers(0, 3)) > 0:
                other = draw(st.sampled_from(cands))
            elif selfdup < 3:
                # a schema-preserving variation of the main program itself
                keep = [k for k in cfg.unary if k in ("sel", "slice", "dedup") or (k == "sort" and not steer)]
                if keep:
                    other = draw(st_unary_node(main, cols, universe, keep, cfg))
            if other is not None and "D11" in avoid and (_has_kind(main, "chain") or _has_kind(other, "chain")):
                other = None
            if other is not None:
                node = ("chain", main, other) if draw(st.booleans()) else ("chain", other, main)
        elif choice == "join":
            if steer and _unsliced_sort(main):
                continue
            mine = leaf_indices(main)
            cands = []
            for p in sides:
                if engine_of(p, leaves) != eng or leaf_indices(p) & mine:
                    continue
                shared = schema(p, leaves) & cols
                if any(not t.is_key for t in shared):
                    continue  # P8: operands share only key columns
                if steer and _unsliced_sort(p):
                    continue
                cands.append(p)
            nested = main[0] in ("dedup", "chain") or (main[0] == "slice" and (main[2] > 0 or main[3] is not None))
            if eng == 0 and cols and nested and all(t.is_key for t in cols) and draw(st.integers(0, 2)) == 0:
                # diamond: both operands are built on the *same* relation object, which the SQL engine has to render as
                # a sub-query (sliced / deduplicated / compound), so that it appears twice in one FROM clause
                free = [t for t in universe if t not in cols]
                kinds_a = ["sel"]
                kinds_b = ["sel", "proj"] + (["calc"] if free else [])
                if draw(st.integers(0, 3)) == 0:
                    # the very same object on both sides: every row joins with each of its duplicates
                    left = right = main
                else:
                    left = draw(st_unary_node(main, cols, universe, kinds_a, cfg))
                    right = draw(st_unary_node(main, cols, universe, (draw(st.sampled_from(kinds_b)),), cfg))
                if left is not None and right is not None and all(t.is_key for t in schema(left, leaves) & schema(right, leaves)):
                    node = ("join", left, right, None)
            elif cands:
                other = draw(st.sampled_from(cands))
                allc = cols | schema(other, leaves)
                pred = None
                if allc and draw(st.integers(0, 99)) < cfg.p_join_pred:
                    pred = draw(st_wrapped_pred(allc, cfg, 1))
                node = ("join", main, other, pred) if draw(st.booleans()) else ("join", other, main, pred)
        if node is not None:
            main = node
            history.append(main)
            made += 1
    return (universe, leaves, main)
