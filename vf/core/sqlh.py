"""Shared SQL-side helpers: compile + run a relation on SQLite under both scan orders, marker inspection."""
from __future__ import annotations

from .base import Violation
from .env import DatabaseError
from .expr import Undecodable, from_lib_e
from .prog import compare


def marker_sort_terms(rel):
    """Terms of the sort recorded on the outermost query level of `rel`, decoded; None if absent/undecodable."""
    try:
        from lsst.daf.relation.sql import Select

        if not isinstance(rel, Select) or not rel.has_sort:
            return None
        return tuple((from_lib_e(t.expression), bool(t.ascending)) for t in rel.sort.terms)
    except (Undecodable, AttributeError):
        return None


def select_levels(rel):
    """Number of SELECT levels in a conformed tree (Select markers met walking the whole tree)."""
    from lsst.daf.relation.sql import Select

    from .prog import lib_nodes

    return sum(1 for r in lib_nodes(rel) if isinstance(r, Select))


class CompileError(Exception):
    def __init__(self, exc):
        super().__init__(f"{type(exc).__name__}: {exc}")
        self.exc = exc


def compile_and_run(env, rel):
    """Returns [rows_forward_scan, rows_reverse_scan]; raises CompileError / DatabaseError."""
    try:
        ex = env.sql.to_executable(rel)
    except Exception as e:
        raise CompileError(e) from e
    cols = list(rel.columns)
    out = []
    for rev in (False, True):
        out.append(env.run_sql(ex, cols, reverse=rev))
    return out, ex


def run_with_extra(env, rel, one_shot):
    """Compile `rel` with one additional SELECT expression (to_executable's documented extra_columns argument, handed over
    as a list or as a one-shot iterator - both are Iterables) and run it: returns (rows keyed by tag, values of the extra
    column).  Raises CompileError / DatabaseError."""
    import sqlalchemy as sa

    from .env import db
    from .tags import name_of

    extra = [sa.literal(7).label("vf_extra_")]
    try:
        ex = env.sql.to_executable(rel, extra_columns=iter(extra) if one_shot else extra)
    except Exception as e:
        raise CompileError(e) from e
    try:
        result = db().execute(ex)
        raw = result.fetchall()
        keys = list(result.keys())
    except Exception as e:
        raise DatabaseError(e, sql_text(ex)) from e
    rows, extras = [], []
    for r in raw:
        m = dict(zip(keys, r))
        rows.append({c: m[name_of(c)] for c in rel.columns})
        extras.append(m.get("vf_extra_", "<missing>"))
    return rows, extras, ex


def sql_text(ex):
    try:
        return str(ex.compile(compile_kwargs={"literal_binds": True})).replace("\n", " ")
    except Exception:
        try:
            return str(ex).replace("\n", " ")
        except Exception as e:
            return f"<unprintable {e}>"


def failed_compilations(env, stats=None):
    """History step for SQL checks: ask the case's SQL engine to compile relations it has to refuse - an unprocessed
    materialization below a sub-query (documented EngineError: 'use a Processor first'), and a relation whose predicate
    calls a function that raises while it is being converted.  The exceptions are expected and ignored; what matters
    is that the same engine object compiles everything that follows as if nothing had happened."""
    from lsst.daf.relation import ColumnExpression, SortTerm

    from .tags import sorted_tags

    done = 0
    for leafrel in env.leafrels:
        if leafrel.engine is not env.sql or not leafrel.columns:
            continue
        t = sorted_tags(leafrel.columns)[0]
        ref = ColumnExpression.reference(t)
        attempts = []
        try:
            mat = leafrel.with_rows_satisfying(ref.ge(ColumnExpression.literal(-99))).materialized(name=f"unprocessed_{done}")
            attempts.append(mat[0:2].sorted([SortTerm(ref, False)]).with_rows_satisfying(ref.le(ColumnExpression.literal(99))))
            attempts.append(mat.sorted([SortTerm(ref)])[1:3].without_duplicates()[0:1])
        except Exception:
            pass
        try:
            boom = ColumnExpression.predicate_function("vf_boom", ref)
            attempts.append(leafrel.sorted([SortTerm(ref)])[0:3].with_rows_satisfying(boom).sorted([SortTerm(ref, False)]))
        except Exception:
            pass
        for rel in attempts:
            try:
                env.sql.to_executable(rel)
            except Exception:
                done += 1
        break
    if stats is not None and done:
        stats.c["history:failed-compilations"] += done
    return done
