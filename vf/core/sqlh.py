"""Shared SQL-side helpers: compile + run a relation on SQLite under both scan orders, marker inspection."""
from __future__ import annotations

from .base import Violation
from .env import DatabaseError
from .expr import Undecodable, from_lib_e
from .prog import compare


def marker_sort_terms(rel):
    """Terms of the sort recorded on the outermost query level of `rel`, decoded; None if absent/undecodable."""
    try:
        from lsst.daf.relation.sql import Select

        if not isinstance(rel, Select) or not rel.has_sort:
            return None
        return tuple((from_lib_e(t.expression), bool(t.ascending)) for t in rel.sort.terms)
    except (Undecodable, AttributeError):
        return None


def select_levels(rel):
    """Number of SELECT levels in a conformed tree (Select markers met walking the whole tree)."""
    from lsst.daf.relation.sql import Select

    from .prog import lib_nodes

    return sum(1 for r in lib_nodes(rel) if isinstance(r, Select))


class CompileError(Exception):
    def __init__(self, exc):
        super().__init__(f"{type(exc).__name__}: {exc}")
        self.exc = exc


def compile_and_run(env, rel):
    """Returns [rows_forward_scan, rows_reverse_scan]; raises CompileError / DatabaseError."""
    try:
        ex = env.sql.to_executable(rel)
    except Exception as e:
        raise CompileError(e) from e
    cols = list(rel.columns)
    out = []
    for rev in (False, True):
        out.append(env.run_sql(ex, cols, reverse=rev))
    return out, ex


def sql_text(ex):
    try:
        return str(ex.compile(compile_kwargs={"literal_binds": True})).replace("\n", " ")
    except Exception:
        try:
            return str(ex).replace("\n", " ")
        except Exception as e:
            return f"<unprintable {e}>"
