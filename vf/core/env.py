"""Execution environment for one case: engines, SQLite tables for SQL leaves, leaf relations, execution helpers."""
from __future__ import annotations

import itertools

import sqlalchemy as sa

from .prog import leaf_rows
from .tags import name_of

_DB = None
_COUNTER = itertools.count()


class HarnessError(Exception):
    """Something in the harness (not the library) failed; reported with exit status 2, never as a violation."""


def db():
    global _DB
    if _DB is None:
        eng = sa.create_engine("sqlite://")
        _DB = eng.connect()
    return _DB


class DatabaseError(Exception):
    """The database rejected or failed to run a compiled statement."""

    def __init__(self, exc, sql_text):
        super().__init__(f"{type(exc).__name__}: {str(exc)[:300]}")
        self.exc = exc
        self.sql_text = sql_text


ROW_LIMIT = 20_000


def take_rows(iterable, what=""):
    """Rows of a result as plain dicts; a result that does not end (a row iterable that feeds on itself, ...) is reported
    instead of being consumed for ever."""
    from .base import Violation

    out = []
    for r in iterable:
        out.append(dict(r))
        if len(out) > ROW_LIMIT:
            raise Violation("runaway-iteration", f"more than {ROW_LIMIT} rows were returned and the result still has not ended {what}")
    return out


class InjectedFault(Exception):
    """Raised by harness payloads / Processor hooks when a fault has been armed (fault-injection steps of C07 / C10)."""


# rows that may still be pulled from counting leaf payloads before the next pull raises InjectedFault (None = disarmed)
FAULT = {"left": None, "fired": False}


def arm_fault(n):
    FAULT["left"] = n
    FAULT["fired"] = False


def disarm_fault():
    FAULT["left"] = None


def _tick():
    n = FAULT["left"]
    if n is not None:
        if n <= 0:
            FAULT["left"] = None
            FAULT["fired"] = True
            raise InjectedFault("injected fault while a leaf payload was being iterated")
        FAULT["left"] = n - 1


def make_counting_sequence(rows):
    from lsst.daf.relation import iteration

    class CountingRowSequence(iteration.RowSequence):
        def __init__(self, rows):
            super().__init__(rows)
            self.iter_starts = 0
            self.rows_pulled = 0

        def __iter__(self):
            self.iter_starts += 1
            for r in self.rows:
                _tick()
                self.rows_pulled += 1
                yield r

        def to_sequence(self):
            # keep counting: the base class returns self, which is fine, but make that explicit
            return self

        def sliced(self, start, stop):
            # the base class slices the underlying list directly (documented: computed directly)
            return iteration.RowSequence(self.rows[start:stop])

    return CountingRowSequence(rows)


def make_custom_payload(rows):
    """A user-defined MaterializedRowIterable (only __iter__ and __len__), counting iteration starts."""
    from lsst.daf.relation import iteration

    class CustomRows(iteration.MaterializedRowIterable):
        def __init__(self, rows):
            self._rows = list(rows)
            self.iter_starts = 0
            self.rows_pulled = 0

        def __iter__(self):
            self.iter_starts += 1
            for r in self._rows:
                _tick()
                self.rows_pulled += 1
                yield r

        def __len__(self):
            return len(self._rows)

    return CustomRows(rows)


def make_lazy_payload(rows):
    """A *lazy* stored payload: the public ChainRowIterable over two RowSequences (a leaf or marker may legally hold any
    RowIterable).  Counts iteration starts; `parts` keeps the original operand list so that its content can be audited."""
    from lsst.daf.relation import iteration

    class LazyChainRows(iteration.ChainRowIterable):
        def __init__(self, parts):
            super().__init__(parts)
            self.iter_starts = 0
            self.rows_pulled = 0

        def __iter__(self):
            self.iter_starts += 1
            for r in super().__iter__():
                _tick()
                self.rows_pulled += 1
                yield r

    rows = list(rows)
    cut = (len(rows) + 1) // 2
    return LazyChainRows([iteration.RowSequence(rows[:cut]), iteration.RowSequence(rows[cut:])])


def make_counting_mapping(cols, rows):
    """A RowMapping payload keyed on the key columns, counting iteration starts; None if keys are not unique."""
    from lsst.daf.relation import iteration

    key = tuple(c for c in cols if c.is_key)
    d = {}
    for r in rows:
        k = tuple(r[c] for c in key)
        if k in d:
            return None
        d[k] = r

    class CountingRowMapping(iteration.RowMapping):
        def __init__(self, unique_key, rows):
            super().__init__(unique_key, rows)
            self.iter_starts = 0
            self.rows_pulled = 0

        def __iter__(self):
            self.iter_starts += 1
            for r in self.rows.values():
                _tick()
                self.rows_pulled += 1
                yield r

    return CountingRowMapping(key, d)


_HANDLE_CLASSES = None


def handle_engine_classes():
    """Engine subclasses with *value* equality: two handles on the same backend are equal but not identical (the library
    compares engines with == throughout, so such engines are legal).  engine.handle() returns a second handle."""
    global _HANDLE_CLASSES
    if _HANDLE_CLASSES is None:
        from lsst.daf.relation import iteration, sql

        def make(base):
            class Handle(base):
                def __eq__(self, other):
                    if other is self:
                        return True
                    mine = getattr(self, "backend_", None)
                    return type(other) is type(self) and mine is not None and getattr(other, "backend_", None) is mine

                def __hash__(self):
                    return hash((type(self).__name__, self.name))

                def handle(self):
                    if getattr(self, "backend_", None) is None:
                        self.backend_ = object()
                    other = type(self)(name=self.name, functions=dict(self.functions))
                    other.backend_ = self.backend_
                    return other

            Handle.__name__ = f"Handle{base.__module__.split('.')[-2].capitalize()}Engine"
            return Handle

        _HANDLE_CLASSES = (make(sql.Engine), make(iteration.Engine))
    return _HANDLE_CLASSES


class Env:
    """Engines 0 = SQL "S", 1 = iteration "A", 2 = iteration "B"."""

    def __init__(self, leaves, counting=False, sql_engine_cls=None, iter_engine_cls=None):
        from lsst.daf.relation import iteration, sql

        from . import expr as _expr

        # one library object per distinct expression / predicate AST within a case: user code re-uses such objects
        # across calls, and state leaking through them (cached column sets) has to be visible to the checks
        self.lib_cache = {}
        _expr.set_cache(self.lib_cache)
        self.leaves = leaves
        self.extra_tags = sorted({c for l in leaves for c in l[1]}, key=name_of)
        self.counting = counting
        # Engine names are display strings only; in half of the cases (a deterministic function of the leaves, so that
        # replays agree) the two iteration engines carry the same name, as two instances made by the same code would.
        from . import codec as _codec

        same = int(_codec.digest(tuple((l[0], len(l[1]), l[3]) for l in leaves))[:2], 16) % 2 == 1
        self.same_names = same
        # every engine registers the user-defined column function "vf_scale" with its own factor (expr.SCALE)
        def _boom(*args):
            raise InjectedFault("injected fault while a column function was being converted")

        S = (sql_engine_cls or sql.Engine)(name="S", functions={"vf_scale": lambda x: x * _expr.SCALE[0], "vf_boom": _boom})
        A = (iter_engine_cls or iteration.Engine)(name="A", functions={"vf_scale": lambda x: x * _expr.SCALE[1]})
        B = (iter_engine_cls or iteration.Engine)(name="A" if same else "B", functions={"vf_scale": lambda x: x * _expr.SCALE[2]})
        self.engines = [S, A, B]
        self.sql = S
        self.tables = []
        self.md = sa.MetaData()
        self.case_no = next(_COUNTER)
        self.leafrels = []
        self.payloads = []
        try:
            for leaf in leaves:
                self.leafrels.append(self._make_leaf(leaf))
        except Exception:
            self.close()
            raise

    # ------------------------------------------------------------ leaves
    def _make_leaf(self, leaf):
        from lsst.daf.relation import LeafRelation, iteration, sql

        name, cols, rows, eng, kind, bounds, variant = leaf
        engine = self.engines[eng]
        if kind == "doomed":
            rel = engine.make_doomed_relation(set(cols), [f"{name} is doomed"], name=name)
            self.payloads.append(None)
            return rel
        if kind == "identity":
            rel = engine.make_join_identity_relation(name=name)
            self.payloads.append(None)
            return rel
        data = leaf_rows(leaf)
        lo, hi = bounds
        if eng == 0:
            payload = self._sql_payload(name, cols, data, variant)
            self.payloads.append(payload)
            colset = set()
            for c in cols:
                colset.add(c)
            return engine.make_leaf(colset, payload, name=name, min_rows=lo, max_rows=hi)
        payload = None
        if variant == "mapping":
            payload = make_counting_mapping(cols, data)
        if payload is None and variant in ("custom", "mapping"):
            payload = make_custom_payload(data)
        if variant == "lazy":
            payload = make_lazy_payload(data)
        if payload is None:
            payload = make_counting_sequence(data) if self.counting else iteration.RowSequence(data)
        self.payloads.append(payload)
        colset = frozenset(cols)
        if (lo, hi) == (len(data), len(data)) and variant != "lazy":  # make_leaf() takes the bounds from len(payload)
            return engine.make_leaf(colset, payload, name=name)
        return LeafRelation(engine, colset, payload, name=name, min_rows=lo, max_rows=hi)

    def _sql_payload(self, name, cols, data, variant):
        from lsst.daf.relation import sql

        conn = db()
        tname = f"t{self.case_no}_{name}"
        phys = {c: (f"c_{name_of(c)}" if variant == "renamed" else name_of(c)) for c in cols}
        columns = [sa.Column(phys[c], sa.Integer) for c in cols]
        if not columns:
            columns = [sa.Column("dummy_", sa.Integer)]
        extra = []
        if variant == "where":
            extra.append(sa.Column("keep_", sa.Integer))
        if variant == "extra":
            extra.append(sa.Column("zz_", sa.Integer))
        table = sa.Table(tname, self.md, *columns, *extra)
        try:
            table.create(conn)
        except Exception as e:  # pragma: no cover
            raise HarnessError(f"cannot create table: {e}") from e
        self.tables.append(table)
        recs = []
        shift = 1 if variant == "shifted" else 0
        for r in data:
            rec = {phys[c]: r[c] - shift for c in cols} or {"dummy_": 0}
            if variant == "where":
                rec["keep_"] = 1
            if variant == "extra":
                rec["zz_"] = 99
            recs.append(rec)
        if variant == "where":
            # junk rows the payload's WHERE list must keep out of every result
            for r in data[:2] or [{c: 7 for c in cols}]:
                rec = {phys[c]: r[c] + 50 for c in cols} or {"dummy_": 0}
                rec["keep_"] = 0
                recs.append(rec)
        if recs:
            conn.execute(table.insert(), recs)
        from_clause = table
        where = []
        if variant == "alias":
            from_clause = table.alias(f"al_{name}")
        elif variant == "subquery":
            from_clause = sa.select(table).subquery(f"sq_{name}")
        if variant == "where":
            where.append(from_clause.c["keep_"] == 1)
        available = {c: from_clause.c[phys[c]] for c in cols}
        if variant == "shifted":
            # logical columns that are SQL expressions over the physical ones
            available = {c: (from_clause.c[phys[c]] + 1) for c in cols}
        if variant == "extra":
            # the FROM clause offers more logical columns than the leaf relation declares (legal: columns_available
            # describes the FROM clause, the relation's columns are a subset); the extra ones hold a sentinel value
            for t in self.extra_tags:
                if t not in available:
                    available[t] = from_clause.c["zz_"]
        return sql.Payload(from_clause, where=where, columns_available=available)

    def twin(self, leaves2):
        """A second set of leaf relations in the *same* engines: same names, columns and engines, other rows."""
        t = Env.__new__(Env)
        t.__dict__.update(self.__dict__)
        t.leaves = leaves2
        t.tables = []
        t.case_no = next(_COUNTER)
        t.leafrels = []
        t.payloads = []
        try:
            for leaf in leaves2:
                t.leafrels.append(t._make_leaf(leaf))
        except Exception:
            t.close_tables()
            raise
        return t

    def close_tables(self):
        conn = db()
        for tb in self.tables:
            try:
                tb.drop(conn)
            except Exception:
                pass
        self.tables = []

    def leaf_index(self, leafrel):
        for i, r in enumerate(self.leafrels):
            target = r
            # SQL leaves are wrapped in a Select marker by make_leaf
            while not hasattr(target, "name") or type(target).__name__ != "LeafRelation":
                target = target.target
            if target is leafrel or (target.name == leafrel.name and target.engine is leafrel.engine):
                return i
        raise KeyError(leafrel)

    def engine_index(self, engine):
        for i, e in enumerate(self.engines):
            if e is engine:
                return i
        raise KeyError(engine)

    # ------------------------------------------------------------ execution
    def run_sql(self, executable, columns, reverse=False):
        """Run a compiled statement; return rows as dicts keyed by tag (fetched by *name*)."""
        conn = db()
        conn.exec_driver_sql(f"PRAGMA reverse_unordered_selects={'ON' if reverse else 'OFF'}")
        try:
            result = conn.execute(executable)
            raw = result.fetchall()
            keys = list(result.keys())
        except Exception as e:
            raise DatabaseError(e, _safe_str(executable)) from e
        finally:
            conn.exec_driver_sql("PRAGMA reverse_unordered_selects=OFF")
        out = []
        for r in raw:
            m = dict(zip(keys, r))
            out.append({c: m[name_of(c)] for c in columns})
        return out

    def run_iter(self, rel):
        return take_rows(rel.engine.execute(rel), f"(executing {str(rel)[:200]})")

    def close(self):
        from . import expr as _expr

        _expr.set_cache(None)
        conn = db()
        for t in self.tables:
            try:
                t.drop(conn)
            except Exception:
                pass
        self.tables = []


def _safe_str(executable):
    try:
        return str(executable)
    except Exception as e:
        return f"<unprintable: {e}>"
