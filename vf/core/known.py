"""Trigger predicates (over the *input* program) of the known findings; symptoms are matched by the check modules.

D9   ORDER BY an expression on a compound (UNION) SELECT: SQL only allows output column names there.
D10  a projection drops a column an upstream sort still needs (compound SELECT operands, or the
     projection-over-deduplication rule): the ORDER BY is compiled against columns that are gone.
D23  backtracking a projection past an existing projection replaces the latter by Identity; when that projection
     hid a column which a later calculation re-defines, the hidden column leaks back and the re-applied calculation
     finds its tag already present.
D25  Processor.process prunes a statically empty chain operand; the sort that sat on the compound SELECT is
     re-applied to a plain SELECT where later calculations / selections no longer start a new query level, and the
     join / chain / materialization above now refuses with the row-order-loss error - inside process().
D11  a chain operand that is itself a chain compiles to a parenthesised compound SELECT, which SQLite rejects;
     the SQL text is pinned by tests/test_sql_engine.py::test_chains so it cannot be repaired here.
"""
from __future__ import annotations

from .expr import cols_e
from .prog import children, walk


def _subtree_has(node, kind):
    return any(n[0] == kind for n in walk(node))


def trig_nested_chain(prog):
    for n in walk(prog):
        if n[0] == "chain" and (_subtree_has(n[1], "chain") or _subtree_has(n[2], "chain")):
            return True
    return False


def trig_compound_order_by_expression(prog):
    for n in walk(prog):
        if n[0] == "sort" and any(e[0] != "ref" for e, _ in n[2]) and _subtree_has(n[1], "chain"):
            return True
    return False


def sort_columns_below(node):
    out = frozenset()
    for n in walk(node):
        if n[0] == "sort":
            for e, _ in n[2]:
                out |= cols_e(e)
    return out


def trig_sort_column_dropped(prog):
    for n in walk(prog):
        if n[0] == "proj" and not sort_columns_below(n[1]) <= frozenset(n[2]):
            return True
    return False


def trig_recalculated_hidden_tag(prog, leaves):
    """A calculation re-defines a tag that exists further upstream (an intermediate projection had hidden it)."""
    from .prog import schema

    for n in walk(prog):
        if n[0] == "calc":
            for m in walk(n[1]):
                if m is not n[1] and n[2] in schema(m, leaves):
                    return True
    return False


def _static_max_rows(node, leaves):
    """Upper row bound the library derives when the tree is built (None = unbounded), from the leaves' declared bounds."""
    k = node[0]
    if k == "leaf":
        leaf = leaves[node[1]]
        if leaf[4] == "doomed":
            return 0
        if leaf[4] == "identity":
            return 1
        return leaf[5][1]
    if k == "slice":
        hi = _static_max_rows(node[1], leaves)
        start, stop = node[2], node[3]
        if stop is not None and stop <= start:
            return 0
        if hi is None:
            return None if stop is None else stop - start
        top = hi if stop is None else min(hi, stop)
        return max(top - start, 0)
    if k in ("chain",):
        a, b = _static_max_rows(node[1], leaves), _static_max_rows(node[2], leaves)
        return None if a is None or b is None else a + b
    if k in ("join", "joinx"):
        a, b = _static_max_rows(node[1], leaves), _static_max_rows(node[2], leaves)
        if a == 0 or b == 0:
            return 0
        return None if a is None or b is None else a * b
    return _static_max_rows(node[1], leaves)


def _statically_empty(node, leaves):
    """Sub-programs the library knows to be empty when the tree is built (max_rows == 0)."""
    return _static_max_rows(node, leaves) == 0


def trig_sorted_chain_with_empty_operand(prog, leaves):
    """A sort over a chain one of whose operands is statically empty, itself below a binary operation or a
    materialization: Processor.process prunes the empty chain operand, the re-applied sort is then no longer
    separated from the downstream operations by the compound SELECT's extra query level, and the row-order-loss
    check fires inside process()."""
    def pruned_chain_below(n):
        return any(m[0] == "chain" and (_statically_empty(m[1], leaves) or _statically_empty(m[2], leaves)) for m in walk(n))

    for n in walk(prog):
        if n[0] in ("chain", "join", "mat"):
            for c in children(n):
                if any(m[0] == "sort" and pruned_chain_below(m[1]) for m in walk(c)):
                    return True
    return False


TRIGGERS = {
    "D9": trig_compound_order_by_expression,
    "D10": trig_sort_column_dropped,
    "D11": trig_nested_chain,
}
