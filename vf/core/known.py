"""Trigger predicates (over the *input* program) of the known findings; symptoms are matched by the check modules.

D9   ORDER BY an expression on a compound (UNION) SELECT: SQL only allows output column names there.
D10  a projection drops a column an upstream sort still needs (compound SELECT operands, or the
     projection-over-deduplication rule): the ORDER BY is compiled against columns that are gone.
D23  backtracking a projection past an existing projection replaces the latter by Identity; when that projection
     hid a column which a later calculation re-defines, the hidden column leaks back and the re-applied calculation
     finds its tag already present.
D11  a chain operand that is itself a chain compiles to a parenthesised compound SELECT, which SQLite rejects;
     the SQL text is pinned by tests/test_sql_engine.py::test_chains so it cannot be repaired here.
"""
from __future__ import annotations

from .expr import cols_e
from .prog import children, walk


def _subtree_has(node, kind):
    return any(n[0] == kind for n in walk(node))


def trig_nested_chain(prog):
    for n in walk(prog):
        if n[0] == "chain" and (_subtree_has(n[1], "chain") or _subtree_has(n[2], "chain")):
            return True
    return False


def trig_compound_order_by_expression(prog):
    for n in walk(prog):
        if n[0] == "sort" and any(e[0] != "ref" for e, _ in n[2]) and _subtree_has(n[1], "chain"):
            return True
    return False


def sort_columns_below(node):
    out = frozenset()
    for n in walk(node):
        if n[0] == "sort":
            for e, _ in n[2]:
                out |= cols_e(e)
    return out


def trig_sort_column_dropped(prog):
    for n in walk(prog):
        if n[0] == "proj" and not sort_columns_below(n[1]) <= frozenset(n[2]):
            return True
    return False


def trig_recalculated_hidden_tag(prog, leaves):
    """A calculation re-defines a tag that exists further upstream (an intermediate projection had hidden it)."""
    from .prog import schema

    for n in walk(prog):
        if n[0] == "calc":
            for m in walk(n[1]):
                if m is not n[1] and n[2] in schema(m, leaves):
                    return True
    return False


TRIGGERS = {
    "D9": trig_compound_order_by_expression,
    "D10": trig_sort_column_dropped,
    "D11": trig_nested_chain,
}
