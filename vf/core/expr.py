"""Expression / predicate AST (plain tuples), independent evaluator, conversion to and from the library.

Expressions:  ("ref", tag) ("lit", int) ("neg", e) ("add"|"sub"|"mul", e, e)
Predicates:   ("eq"|"ne"|"lt"|"le"|"gt"|"ge", e, e) ("and"|"or", (p, ...)) ("not", p) ("plit", bool)
              ("inrange", e, (start, stop, step)) ("inseq", e, (e, ...)) ("pref", tag)
The evaluator shares no code with lsst.daf.relation.
"""
from __future__ import annotations

from hypothesis import strategies as st

from .tags import name_of, sorted_tags

CMP = {
    "eq": lambda x, y: x == y,
    "ne": lambda x, y: x != y,
    "lt": lambda x, y: x < y,
    "le": lambda x, y: x <= y,
    "gt": lambda x, y: x > y,
    "ge": lambda x, y: x >= y,
}
ARITH = {"add": "__add__", "sub": "__sub__", "mul": "__mul__"}
CMP_SYM = {"eq": "=", "ne": "!=", "lt": "<", "le": "<=", "gt": ">", "ge": ">="}


def eval_e(e, row):
    k = e[0]
    if k == "ref":
        return row[e[1]]
    if k == "lit":
        return e[1]
    if k == "neg":
        return -eval_e(e[1], row)
    if k == "rneg":  # negation through a function restricted to one engine type: ("rneg", "it"|"sql", e)
        return -eval_e(e[2], row)
    if k == "add":
        return eval_e(e[1], row) + eval_e(e[2], row)
    if k == "sub":
        return eval_e(e[1], row) - eval_e(e[2], row)
    if k == "mul":
        return eval_e(e[1], row) * eval_e(e[2], row)
    raise AssertionError(e)


def in_range(v, start, stop, step):
    """Membership in range(start, stop, step) written out without using `range`."""
    if step > 0:
        return start <= v < stop and (v - start) % step == 0
    return stop < v <= start and (start - v) % (-step) == 0


def eval_p(p, row):
    k = p[0]
    if k in CMP:
        return CMP[k](eval_e(p[1], row), eval_e(p[2], row))
    if k == "and":
        return all(eval_p(q, row) for q in p[1])
    if k == "or":
        return any(eval_p(q, row) for q in p[1])
    if k == "not":
        return not eval_p(p[1], row)
    if k == "plit":
        return p[1]
    if k == "inrange":
        return in_range(eval_e(p[1], row), *p[2])
    if k == "inseq":
        v = eval_e(p[1], row)
        return any(v == eval_e(x, row) for x in p[2])
    if k == "pref":
        return bool(row[p[1]])
    raise AssertionError(p)


def cols_e(e):
    k = e[0]
    if k == "ref":
        return frozenset([e[1]])
    if k == "lit":
        return frozenset()
    if k == "rneg":
        return cols_e(e[2])
    out = frozenset()
    for x in e[1:]:
        out |= cols_e(x)
    return out


def cols_p(p):
    k = p[0]
    if k in CMP:
        return cols_e(p[1]) | cols_e(p[2])
    if k in ("and", "or"):
        out = frozenset()
        for q in p[1]:
            out |= cols_p(q)
        return out
    if k == "not":
        return cols_p(p[1])
    if k == "plit":
        return frozenset()
    if k == "inrange":
        return cols_e(p[1])
    if k == "inseq":
        out = cols_e(p[1])
        for x in p[2]:
            out |= cols_e(x)
        return out
    if k == "pref":
        return frozenset([p[1]])
    raise AssertionError(p)


def size_e(e):
    if e[0] == "rneg":
        return 1 + size_e(e[2])
    return 0 if e[0] in ("ref", "lit") else 1 + sum(size_e(x) for x in e[1:])


def restrictions_e(e):
    """Engine kinds ('it' / 'sql') that engine-restricted functions inside the expression require."""
    k = e[0]
    if k in ("ref", "lit"):
        return frozenset()
    if k == "rneg":
        return frozenset([e[1]]) | restrictions_e(e[2])
    out = frozenset()
    for x in e[1:]:
        out |= restrictions_e(x)
    return out


def restrictions_p(p):
    k = p[0]
    if k in CMP:
        return restrictions_e(p[1]) | restrictions_e(p[2])
    if k in ("and", "or"):
        out = frozenset()
        for q in p[1]:
            out |= restrictions_p(q)
        return out
    if k == "not":
        return restrictions_p(p[1])
    if k == "inrange":
        return restrictions_e(p[1])
    if k == "inseq":
        out = restrictions_e(p[1])
        for x in p[2]:
            out |= restrictions_e(x)
        return out
    return frozenset()


def size_p(p):
    k = p[0]
    if k in CMP:
        return 1 + size_e(p[1]) + size_e(p[2])
    if k in ("and", "or"):
        return 1 + sum(size_p(q) for q in p[1])
    if k == "not":
        return 1 + size_p(p[1])
    if k in ("plit", "pref"):
        return 0
    if k == "inrange":
        return 1 + size_e(p[1])
    if k == "inseq":
        return 1 + size_e(p[1]) + sum(size_e(x) for x in p[2])
    raise AssertionError(p)


def fmt_e(e):
    k = e[0]
    if k == "ref":
        return name_of(e[1])
    if k == "lit":
        return str(e[1])
    if k == "neg":
        return f"-({fmt_e(e[1])})"
    if k == "rneg":
        return f"neg@{e[1]}({fmt_e(e[2])})"
    return f"({fmt_e(e[1])} {dict(add='+', sub='-', mul='*')[k]} {fmt_e(e[2])})"


def fmt_p(p):
    k = p[0]
    if k in CMP:
        return f"{fmt_e(p[1])} {CMP_SYM[k]} {fmt_e(p[2])}"
    if k in ("and", "or"):
        return f"{k.upper()}[" + ", ".join(fmt_p(q) for q in p[1]) + "]"
    if k == "not":
        return f"NOT({fmt_p(p[1])})"
    if k == "plit":
        return str(p[1]).upper()
    if k == "inrange":
        return f"{fmt_e(p[1])} IN range{tuple(p[2])}"
    if k == "inseq":
        return f"{fmt_e(p[1])} IN [" + ", ".join(fmt_e(x) for x in p[2]) + "]"
    if k == "pref":
        return f"bool:{name_of(p[1])}"
    raise AssertionError(p)


# ---------------------------------------------------------------- to the library


_CACHE = None


def set_cache(cache):
    """Install (or remove, with None) a per-case cache: equal ASTs then convert to the *same* library object, so
    expression / predicate objects are re-used across factory calls the way user code re-uses them."""
    global _CACHE
    _CACHE = cache


def lib_e(e):
    if _CACHE is not None:
        key = ("e", e)
        if key not in _CACHE:
            _CACHE[key] = _lib_e(e)
        return _CACHE[key]
    return _lib_e(e)


def _lib_e(e):
    from lsst.daf.relation import ColumnExpression

    k = e[0]
    if k == "ref":
        return ColumnExpression.reference(e[1])
    if k == "lit":
        return ColumnExpression.literal(e[1])
    if k == "neg":
        return lib_e(e[1]).method("__neg__")
    if k == "rneg":
        from lsst.daf.relation import iteration, sql

        cls = iteration.Engine if e[1] == "it" else sql.Engine
        return lib_e(e[2]).method("__neg__", supporting_engine_types=[cls])
    return lib_e(e[1]).method(ARITH[k], lib_e(e[2]))


def lib_p(p, raw_connectives=True):
    if _CACHE is not None:
        key = ("p", p, raw_connectives)
        if key not in _CACHE:
            _CACHE[key] = _lib_p(p, raw_connectives)
        return _CACHE[key]
    return _lib_p(p, raw_connectives)


def _lib_p(p, raw_connectives=True):
    """Convert to a library predicate.

    and/or are built with the dataclass constructors (so arities 0 and 1 really reach the library)
    unless raw_connectives is False, in which case the `logical_and`/`logical_or` factories are used.
    """
    from lsst.daf.relation import ColumnContainer, LogicalAnd, LogicalOr, Predicate

    k = p[0]
    if k in CMP:
        return getattr(lib_e(p[1]), k)(lib_e(p[2]))
    if k in ("and", "or"):
        ops = tuple(lib_p(q, raw_connectives) for q in p[1])
        if raw_connectives:
            return (LogicalAnd if k == "and" else LogicalOr)(ops)
        if k == "and":
            return Predicate.logical_and(*ops) if ops else Predicate.literal(True)
        return Predicate.logical_or(*ops) if ops else Predicate.literal(False)
    if k == "not":
        return lib_p(p[1], raw_connectives).logical_not()
    if k == "plit":
        return Predicate.literal(p[1])
    if k == "inrange":
        return ColumnContainer.range_literal(range(*p[2])).contains(lib_e(p[1]))
    if k == "inseq":
        return ColumnContainer.sequence(tuple(lib_e(x) for x in p[2])).contains(lib_e(p[1]))
    if k == "pref":
        return Predicate.reference(p[1])
    raise AssertionError(p)


# ---------------------------------------------------------------- from the library


class Undecodable(Exception):
    pass


_ARITH_BACK = {v: k for k, v in ARITH.items()}
_CMP_BACK = {f"__{k}__": k for k in CMP}


def from_lib_e(x):
    from lsst.daf.relation import ColumnFunction, ColumnLiteral, ColumnReference

    if isinstance(x, ColumnLiteral):
        if isinstance(x.value, bool) or not isinstance(x.value, int):
            raise Undecodable(repr(x))
        return ("lit", x.value)
    if isinstance(x, ColumnReference):
        return ("ref", x.tag)
    if isinstance(x, ColumnFunction):
        if x.name == "__neg__" and len(x.args) == 1 and x.supporting_engine_types is not None:
            from lsst.daf.relation import iteration, sql

            kinds = {("it" if t is iteration.Engine else "sql" if t is sql.Engine else "?") for t in x.supporting_engine_types}
            if len(kinds) == 1 and "?" not in kinds:
                return ("rneg", kinds.pop(), from_lib_e(x.args[0]))
            raise Undecodable(repr(x))
        if x.name == "__neg__" and len(x.args) == 1:
            return ("neg", from_lib_e(x.args[0]))
        if x.name in _ARITH_BACK and len(x.args) == 2:
            return (_ARITH_BACK[x.name], from_lib_e(x.args[0]), from_lib_e(x.args[1]))
    raise Undecodable(repr(x))


def from_lib_p(x):
    from lsst.daf.relation import (
        ColumnExpressionSequence,
        ColumnInContainer,
        ColumnRangeLiteral,
        LogicalAnd,
        LogicalNot,
        LogicalOr,
        PredicateFunction,
        PredicateLiteral,
        PredicateReference,
    )

    if isinstance(x, PredicateFunction):
        if x.name in _CMP_BACK and len(x.args) == 2:
            return (_CMP_BACK[x.name], from_lib_e(x.args[0]), from_lib_e(x.args[1]))
        raise Undecodable(repr(x))
    if isinstance(x, LogicalAnd):
        return ("and", tuple(from_lib_p(o) for o in x.operands))
    if isinstance(x, LogicalOr):
        return ("or", tuple(from_lib_p(o) for o in x.operands))
    if isinstance(x, LogicalNot):
        return ("not", from_lib_p(x.operand))
    if isinstance(x, PredicateLiteral):
        return ("plit", bool(x.value))
    if isinstance(x, PredicateReference):
        return ("pref", x.tag)
    if isinstance(x, ColumnInContainer):
        c = x.container
        if isinstance(c, ColumnRangeLiteral):
            return ("inrange", from_lib_e(x.item), (c.value.start, c.value.stop, c.value.step))
        if isinstance(c, ColumnExpressionSequence):
            return ("inseq", from_lib_e(x.item), tuple(from_lib_e(i) for i in c.items))
    raise Undecodable(repr(x))


# ---------------------------------------------------------------- strategies
#
# Choices are drawn as weighted integers inside composites: `one_of` over recursive strategies gave a badly
# skewed distribution under Hypothesis' mutation heuristics (65 % of predicates were a bare NOT).


@st.composite
def st_expr(draw, cols, depth=2, need_ref=False, lit=st.integers(-3, 3), restricted=0):
    """Expressions over `cols` (a collection of tags).  need_ref forces at least one column reference.
    `restricted` is the percentage of expressions wrapped in an engine-restricted function."""
    cols = sorted_tags(cols)
    if need_ref and not cols:
        raise ValueError("need_ref with no columns")
    if restricted and draw(st.integers(0, 99)) < restricted:
        inner = draw(st_expr(cols, max(depth - 1, 0), need_ref, lit, 0))
        out = ("rneg", draw(st.sampled_from(["it", "sql"])), inner)
        shape = draw(st.integers(0, 5))
        if shape == 0:
            # a second restricted function on top (possibly restricted to the other kind of engine)
            out = ("rneg", draw(st.sampled_from(["it", "sql"])), out)
        elif shape == 1:
            out = ("rneg", draw(st.sampled_from(["it", "sql"])), ("add", out, ("lit", draw(lit))))
        elif shape == 2:
            out = ("sub", ("lit", draw(lit)), out)
        return out
    r = draw(st.integers(0, 99)) if depth > 0 else 0
    if r < 45:
        if cols and (need_ref or draw(st.integers(0, 2)) > 0):
            return ("ref", draw(st.sampled_from(cols)))
        return ("lit", draw(lit))
    if r < 58:
        return ("neg", draw(st_expr(cols, depth - 1, need_ref, lit)))
    op = draw(st.sampled_from(["add", "sub", "mul"]))
    a = draw(st_expr(cols, depth - 1, need_ref, lit))
    b = draw(st_expr(cols, depth - 1, False, lit))
    return (op, a, b) if draw(st.booleans()) else (op, b, a)


def st_range(lo=-6, hi=6, steps=(1, 1, 2, 3, -1, -2)):
    return st.tuples(st.integers(lo, hi), st.integers(lo, hi), st.sampled_from(list(steps)))


@st.composite
def st_pred(draw, cols, depth=2, edepth=1, literals=True, ranges=st_range(), max_arity=3, plit=10):
    r = draw(st.integers(0, 99))
    if depth > 0 and r >= 45:
        if r < 60:
            return ("not", draw(st_pred(cols, depth - 1, edepth, literals, ranges, max_arity, plit)))
        n = draw(st.integers(0, max_arity))
        subs = tuple(draw(st_pred(cols, depth - 1, edepth, literals, ranges, max_arity, plit)) for _ in range(n))
        return ("and" if r < 82 else "or", subs)
    e = st_expr(cols, edepth)
    r = draw(st.integers(0, 99))
    if literals and r >= 100 - plit:
        return ("plit", draw(st.booleans()))
    r = draw(st.integers(0, 89))
    if r < 55:
        return (draw(st.sampled_from(sorted(CMP))), draw(e), draw(e))
    if r < 72:
        return ("inrange", draw(e), draw(ranges))
    return ("inseq", draw(e), tuple(draw(st.lists(e, min_size=1, max_size=3))))
