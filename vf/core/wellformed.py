"""Node-local structural invariants of a relation tree (property C14)."""
from __future__ import annotations

from .expr import Undecodable, from_lib_e, from_lib_p, restrictions_e, restrictions_p


def engine_kind(engine):
    from lsst.daf.relation import iteration, sql

    if isinstance(engine, sql.Engine):
        return "sql"
    if isinstance(engine, iteration.Engine):
        return "it"
    return "?"


def check_tree(root):
    """Returns None or (code, description) for the first ill-formed node."""
    from lsst.daf.relation import (
        BinaryOperationRelation,
        Calculation,
        Chain,
        Deduplication,
        Identity,
        IgnoreOne,
        Join,
        LeafRelation,
        MarkerRelation,
        Materialization,
        PartialJoin,
        Projection,
        Selection,
        Slice,
        Sort,
        Transfer,
        UnaryOperationRelation,
    )
    from lsst.daf.relation.sql import Select

    seen = set()
    stack = [root]
    while stack:
        n = stack.pop()
        if id(n) in seen:
            continue
        seen.add(id(n))
        where = str(n)[:200]
        if isinstance(n, LeafRelation):
            continue
        if isinstance(n, UnaryOperationRelation):
            op, t = n.operation, n.target
            stack.append(t)
            if isinstance(op, (Identity, PartialJoin)):
                return ("placeholder-node", f"{type(op).__name__} appears as a node: {where}")
            if n.engine is not t.engine:
                return ("engine-mismatch", f"unary node engine {n.engine} != target engine {t.engine}: {where}")
            if not set(op.columns_required) <= set(t.columns):
                return ("missing-columns", f"{op} needs {set(op.columns_required) - set(t.columns)} missing from its target: {where}")
            if isinstance(op, Calculation) and op.tag in t.columns:
                return ("duplicate-tag", f"calculated tag {op.tag} already present in the target: {where}")
            if isinstance(op, Projection) and not set(op.columns) <= set(t.columns):
                return ("projection-superset", f"{op} not within target columns: {where}")
            if set(n.columns) != set(op.applied_columns(t)):
                return ("columns-inconsistent", f"node columns {set(n.columns)} != applied_columns {set(op.applied_columns(t))}: {where}")
            exprs = []
            try:
                if isinstance(op, Calculation):
                    exprs.append(restrictions_e(from_lib_e(op.expression)))
                elif isinstance(op, Selection):
                    exprs.append(restrictions_p(from_lib_p(op.predicate)))
                elif isinstance(op, Sort):
                    exprs += [restrictions_e(from_lib_e(term.expression)) for term in op.terms]
            except Undecodable:
                exprs = []
            for r in exprs:
                if r and r != {engine_kind(n.engine)}:
                    return ("unsupported-expression", f"{op} uses a function restricted to {set(r)} in engine {n.engine}: {where}")
            if not op.is_supported_by(n.engine):
                return ("unsupported-expression", f"{op}.is_supported_by({n.engine}) is False: {where}")
        elif isinstance(n, BinaryOperationRelation):
            op, l, r = n.operation, n.lhs, n.rhs
            stack += [r, l]
            if isinstance(op, IgnoreOne):
                return ("placeholder-node", f"IgnoreOne appears as a node: {where}")
            if l.engine is not r.engine:
                return ("engine-mismatch", f"binary operands in engines {l.engine} / {r.engine}: {where}")
            if n.engine is not l.engine:
                return ("engine-mismatch", f"binary node engine differs from its operands': {where}")
            if isinstance(op, Chain):
                if set(l.columns) != set(r.columns):
                    return ("chain-columns", f"chain operands differ in columns: {where}")
            elif isinstance(op, Join):
                if op.max_columns is None or op.min_columns != op.max_columns:
                    return ("join-unresolved", f"join common columns not resolved: {where}")
                cc = set(op.min_columns)
                if not (cc <= set(l.columns) and cc <= set(r.columns)):
                    return ("join-common-columns", f"join common columns {cc} not in both operands: {where}")
                if any(not t.is_key for t in cc):
                    return ("join-common-columns", f"join common columns {cc} include non-key columns: {where}")
                if not set(op.predicate.columns_required) <= set(l.columns) | set(r.columns):
                    return ("missing-columns", f"join predicate needs columns missing from both operands: {where}")
                try:
                    rr = restrictions_p(from_lib_p(op.predicate))
                    if rr and rr != {engine_kind(n.engine)}:
                        return ("unsupported-expression", f"join predicate restricted to {set(rr)} in engine {n.engine}: {where}")
                except Undecodable:
                    pass
            if set(n.columns) != set(op.applied_columns(l, r)):
                return ("columns-inconsistent", f"binary node columns inconsistent: {where}")
        elif isinstance(n, Transfer):
            stack.append(n.target)
            if n.destination is n.target.engine:
                return ("self-transfer", f"transfer connects engine {n.destination} to itself: {where}")
            if n.engine is not n.destination:
                return ("engine-mismatch", f"transfer engine is not its destination: {where}")
        elif isinstance(n, Select):
            stack.append(n.target)
            if engine_kind(n.engine) != "sql":
                return ("select-outside-sql", f"sql.Select marker in engine {n.engine}: {where}")
            if n.skip_to.engine is not n.engine:
                return ("engine-mismatch", f"select.skip_to lives in {n.skip_to.engine}, select in {n.engine}: {where}")
            if n.target.engine is not n.engine:
                return ("engine-mismatch", f"select target lives in another engine: {where}")
        elif isinstance(n, MarkerRelation):
            stack.append(n.target)
            if n.engine is not n.target.engine:
                return ("engine-mismatch", f"marker engine differs from its target's: {where}")
        else:
            return ("unknown-node", f"{type(n).__name__}: {where}")
    return None
