"""Finite enumeration of the SQL engine's SELECT-rule matrix: (state of one SELECT level) x (next operation[s]).

state  = subset of {sort, projection, deduplication, slice} applied in canonical order on a base relation
base   = leaf | leaf.sel | chain(leaf, leaf2) | join(leaf, leaf3)
then 1 (or 2) further operations from a fixed list, on fixed discriminating data sets (distinct rows whose scan
order differs from every sort order used; rows with duplicates and ties).
"""
from __future__ import annotations

import itertools

from .tags import VTag

A = VTag("a", True, 1)
B = VTag("b", True, 2)
C = VTag("c", True, 3)
D = VTag("d", True, 4)
UNIVERSE = (A, B, C, D)

DATA = {
    "distinct": (((2, 1, 0), (0, 2, 1), (1, 0, 2), (2, 0, 1), (0, 1, 2)), ((1, 1, 1), (2, 1, 0), (0, 0, 0))),
    # (in the order of the state's sort the first three rows of L0 are (1,0,0), (1,1,0), (1,1,0): a window computed per
    # chain operand before the duplicates are removed loses (0,0,1), which L1 does not supply)
    "dups": (((1, 1, 0), (0, 1, 1), (1, 1, 0), (0, 0, 1), (0, 1, 1), (1, 0, 0)), ((1, 1, 0), (0, 1, 1), (1, 1, 0))),
}

R = lambda t: ("ref", t)  # noqa: E731

STATE_OPS = {
    "sort": ("sort", ((R(A), False), (R(B), True), (R(C), True))),
    "proj": ("proj", (B, A)),
    "dedup": ("dedup",),
    "slice": ("slice", 1, 3),
}
ORDER = ("sort", "proj", "dedup", "slice")


def next_ops(cols):
    ops = [
        ("calc", D, ("add", R(A), R(B))),
        ("proj", (A,)),
        ("proj", (A, B)),
        ("sel", ("ge", R(A), ("lit", 1))),
        ("sel", ("plit", False)),
        ("dedup",),
        ("sort", ((R(B), True), (R(A), True))),
        ("sort", ((R(A), False),)),
        ("slice", 0, 2),
        ("slice", 1, None),
        ("slice", 2, 2),
    ]
    if C in cols:
        ops.append(("sort", ((R(C), False), (R(A), True), (R(B), True))))
        ops.append(("proj", (C, A)))
    else:
        # a calculation re-using the tag of a column the state's projection hid (the state's sort may still use it)
        ops.append(("calc", C, ("neg", R(A))))
    return ops


def _apply(spec, src):
    return (spec[0], src) + tuple(spec[1:])


def _valid(spec, cols):
    from .expr import cols_e, cols_p

    k = spec[0]
    if k == "calc":
        return spec[1] not in cols and cols_e(spec[2]) <= cols
    if k == "proj":
        return frozenset(spec[1]) <= cols
    if k == "sel":
        return cols_p(spec[1]) <= cols
    if k == "sort":
        return all(cols_e(e) <= cols for e, _ in spec[1])
    return True


def select_matrix(steps=1, engine=0, bases=("leaf", "sel", "chain", "join")):
    """Yield (label, (universe, leaves, prog))."""
    from .prog import schema

    for dname, (rows0, rows1) in DATA.items():
        leaves = (
            ("L0", (A, B, C), rows0, engine, "data", (len(rows0), len(rows0)), "plain"),
            ("L1", (C, A, B), tuple((r[2], r[0], r[1]) for r in rows1), engine, "data", (len(rows1), len(rows1)), "renamed"),
            ("L2", (A, D), ((0, 7), (1, 8), (2, 9), (2, 6)), engine, "data", (4, 4), "plain"),
        )
        for base in bases:
            if base == "leaf":
                b = ("leaf", 0)
            elif base == "sel":
                b = ("sel", ("leaf", 0), ("ne", R(A), R(B)))
            elif base == "chain":
                b = ("chain", ("leaf", 0), ("leaf", 1))
            else:
                b = ("join", ("leaf", 0), ("leaf", 2), None)
            for flags in range(16):
                prog = b
                for bit, k in enumerate(ORDER):
                    if flags >> bit & 1:
                        prog = _apply(STATE_OPS[k], prog)
                state = "".join(k[0].upper() for bit, k in enumerate(ORDER) if flags >> bit & 1)
                cols = schema(prog, leaves)
                for combo in itertools.product(range(13), repeat=steps):
                    p = prog
                    ok = True
                    names = []
                    for i in combo:
                        ops = next_ops(schema(p, leaves))
                        if i >= len(ops) or not _valid(ops[i], schema(p, leaves)):
                            ok = False
                            break
                        p = _apply(ops[i], p)
                        names.append(ops[i][0])
                    if ok:
                        yield (f"{dname}/{base}/[{state}]/" + ">".join(names), (UNIVERSE, leaves, p))
        if steps == 1 and "join" in bases and engine == 0:
            # joins of two projected operands: every pair of projections (each keeping the join key a), so that each side
            # may hide a column the other side still shows - one-sided and mutual clashes of hidden columns - optionally
            # below a deduplication or selection; the two leaves hold different values under the same column names
            subsets = ((A,), (A, B), (C, A), (A, B, C))
            wraps = (None, ("dedup",), ("sel", ("ge", R(A), ("lit", 1))), ("slice", 0, 0), ("slice", 1, 1), ("slice", 0, 2))
            for pl, pr in itertools.product(subsets, subsets):
                for wl, wr in itertools.product(wraps, wraps):
                    lhs, rhs = ("proj", ("leaf", 0), pl), ("proj", ("leaf", 1), pr)
                    if wl is not None:
                        lhs = _apply(wl, lhs)
                    if wr is not None:
                        rhs = _apply(wr, rhs)
                    yield (f"{dname}/projected-join/{len(pl)}x{len(pr)}", (UNIVERSE, leaves, ("join", lhs, rhs, None)))
                    yield (f"{dname}/projected-join/{len(pl)}x{len(pr)}/swapped", (UNIVERSE, leaves, ("join", rhs, lhs, None)))
        if steps == 1:
            # deduplicate, hide a column in which otherwise equal rows differ, calculate a new column under the hidden
            # column's tag, deduplicate again: the rows are not unique any more although the first deduplication's columns
            # are all "still there"
            for hide in ((A,), (A, B), (B,)):
                for expr in (("neg", R(hide[0])), ("add", R(hide[0]), ("lit", 1)), ("mul", R(hide[-1]), ("lit", 0))):
                    for mid in (None, ("sel", ("ge", R(hide[0]), ("lit", 0))), ("sort", ((R(hide[0]), True),)), ("slice", 0, 5)):
                        p = ("proj", ("dedup", ("leaf", 0)), hide)
                        if mid is not None:
                            p = _apply(mid, p)
                        for hidden in (t for t in (A, B, C) if t not in hide):
                            p = ("calc", p, hidden, expr)  # every hidden tag comes back as a calculated column
                        p = ("dedup", p)
                        yield (f"{dname}/dedup-hide-recalc-dedup/{mid[0] if mid else 'plain'}", (UNIVERSE, leaves, p))
                        yield (f"{dname}/dedup-hide-recalc-dedup/{mid[0] if mid else 'plain'}/sliced", (UNIVERSE, leaves, ("slice", p, 0, 3)))
        if steps == 1:
            # a calculated column as the only carrier of a column the projection hid: calculation, projection hiding its
            # input, deduplication, projection dropping the calculated column (the last projection must not be folded
            # into the DISTINCT)
            for expr in (("neg", R(C)), ("add", R(C), R(A))):
                for keep in ((A, D), (B, A, D)):
                    for tail in ((A,), (B, A)):
                        if not set(tail) <= set(keep):
                            continue
                        for mid in (None, ("sort", ((R(A), True),)), ("slice", 0, 4)):
                            p = ("dedup", ("proj", ("calc", ("leaf", 0), D, expr), keep))
                            if mid is not None:
                                p = _apply(mid, p)
                            p = ("proj", p, tail)
                            yield (f"{dname}/calc-carrier/{mid[0] if mid else 'plain'}", (UNIVERSE, leaves, p))
            # a SELECT level whose sort is keyed on a column its projection hides, then a calculation re-using that tag
            for terms in (((R(C), True), (R(A), True), (R(B), True)), ((R(C), False), (R(A), True), (R(B), False))):
                for sl in (None, (0, 2), (1, 3)):
                    for expr in (("neg", R(A)), ("add", R(A), R(B))):
                        p = ("proj", ("sort", ("leaf", 0), terms), (A, B))
                        if sl is not None:
                            p = ("slice", p) + sl
                        p = ("calc", p, C, expr)
                        yield (f"{dname}/hidden-tag-calc/{'slice' if sl else 'noslice'}", (UNIVERSE, leaves, p))
