"""Program AST (what the caller *asked for*), reference evaluator, builder and decoder.

Program nodes (plain tuples; `src`, `l`, `r` are nested program nodes):
  ("leaf", i)
  ("calc", src, tag, expr)          ("proj", src, (tag, ...))        ("sel", src, pred)
  ("dedup", src)                    ("sort", src, ((expr, asc), ...)) ("slice", src, start, stop)
  ("chain", l, r)                   ("join", l, r, pred | None)
  ("joinx", l, r, pred | None, (tag, ...))   join on an explicit set of common columns (decoder only)
  ("mat", src, name)                ("xfer", src, engine_index)
  ("mark", src)                     a user-defined MarkerRelation subclass (extension point; iteration engines only)

Leaf specs (plain tuples):
  (name, cols, rows, engine_index, kind, (min_rows, max_rows), variant)
     cols: tuple of tags in insertion order; rows: tuple of value tuples aligned with cols
     kind: "data" | "doomed" | "identity";  variant (SQL leaves): plain|renamed|alias|subquery|where|extra
"""
from __future__ import annotations

import dataclasses
import functools

from .expr import cols_e, cols_p, eval_e, eval_p, fmt_e, fmt_p, from_lib_e, from_lib_p, lib_e, lib_p
from .tags import name_of, sorted_tags

UNARY = ("calc", "proj", "sel", "dedup", "sort", "slice", "mat", "xfer", "mark")
BINARY = ("chain", "join", "joinx")


class OutOfDomain(Exception):
    """The generated case violates a documented precondition of the library (DESIGN section 2)."""

    def __init__(self, reason):
        super().__init__(reason)
        self.reason = reason


# ---------------------------------------------------------------- leaf spec helpers


def leaf_name(leaf):
    return leaf[0]


def leaf_cols(leaf):
    return leaf[1]


def leaf_rows(leaf):
    """True content of the leaf as a list of dicts."""
    name, cols, rows, eng, kind, bounds, variant = leaf
    if kind == "doomed":
        return []
    if kind == "identity":
        return [{}]
    return [dict(zip(cols, r)) for r in rows]


def leaf_engine(leaf):
    return leaf[3]


# ---------------------------------------------------------------- static info


def children(prog):
    k = prog[0]
    if k == "leaf":
        return ()
    if k in BINARY:
        return (prog[1], prog[2])
    return (prog[1],)


def walk(prog, _seen=None):
    """Post-order iteration over all distinct nodes (shared sub-programs are visited once)."""
    if _seen is None:
        _seen = set()
    if id(prog) in _seen:
        return
    _seen.add(id(prog))
    for c in children(prog):
        yield from walk(c, _seen)
    yield prog


def n_ops(prog):
    return sum(1 for n in walk(prog) if n[0] != "leaf")


def kinds(prog):
    return [n[0] for n in walk(prog)]


def leaf_indices(prog):
    return {n[1] for n in walk(prog) if n[0] == "leaf"}


def schema(prog, leaves):
    k = prog[0]
    if k == "leaf":
        leaf = leaves[prog[1]]
        return frozenset() if leaf[4] == "identity" else frozenset(leaf[1])
    if k == "calc":
        return schema(prog[1], leaves) | {prog[2]}
    if k == "proj":
        return frozenset(prog[2])
    if k in ("sel", "dedup", "sort", "slice", "mat", "xfer", "mark"):
        return schema(prog[1], leaves)
    if k == "chain":
        return schema(prog[1], leaves)
    if k in ("join", "joinx"):
        return schema(prog[1], leaves) | schema(prog[2], leaves)
    raise AssertionError(prog)


def engine_of(prog, leaves):
    k = prog[0]
    if k == "leaf":
        return leaves[prog[1]][3]
    if k == "xfer":
        return prog[2]
    return engine_of(prog[1], leaves)


def fmt(prog, leaves=None):
    k = prog[0]
    if k == "leaf":
        return leaves[prog[1]][0] if leaves else f"L{prog[1]}"
    if k == "calc":
        return f"{fmt(prog[1], leaves)}.calc({name_of(prog[2])}={fmt_e(prog[3])})"
    if k == "proj":
        return f"{fmt(prog[1], leaves)}.proj({','.join(name_of(t) for t in prog[2])})"
    if k == "sel":
        return f"{fmt(prog[1], leaves)}.sel({fmt_p(prog[2])})"
    if k == "dedup":
        return f"{fmt(prog[1], leaves)}.dedup()"
    if k == "sort":
        terms = ",".join(("" if asc else "-") + fmt_e(e) for e, asc in prog[2])
        return f"{fmt(prog[1], leaves)}.sort({terms})"
    if k == "slice":
        return f"{fmt(prog[1], leaves)}[{prog[2]}:{'' if prog[3] is None else prog[3]}]"
    if k == "chain":
        return f"chain({fmt(prog[1], leaves)}, {fmt(prog[2], leaves)})"
    if k == "join":
        p = "" if prog[3] is None else f", on={fmt_p(prog[3])}"
        return f"join({fmt(prog[1], leaves)}, {fmt(prog[2], leaves)}{p})"
    if k == "joinx":
        p = "" if prog[3] is None else f", on={fmt_p(prog[3])}"
        return f"joinx({fmt(prog[1], leaves)}, {fmt(prog[2], leaves)}{p}, common={[name_of(t) for t in prog[4]]})"
    if k == "mat":
        return f"{fmt(prog[1], leaves)}.mat({prog[2]!r})"
    if k == "xfer":
        return f"{fmt(prog[1], leaves)}.to(E{prog[2]})"
    if k == "mark":
        return f"{fmt(prog[1], leaves)}.mark()"
    raise AssertionError(prog)


def fmt_leaves(leaves):
    out = []
    for name, cols, rows, eng, kind, bounds, variant in leaves:
        out.append(
            f"{name}@E{eng}[{kind}/{variant} bounds={bounds}] cols=({','.join(name_of(c) + ('' if c.is_key else '*') for c in cols)}) rows={list(rows)}"
        )
    return out


# ---------------------------------------------------------------- reference evaluator: list semantics


def row_key(row):
    return tuple(sorted((name_of(t), v) for t, v in row.items()))


def sort_rows(rows, terms):
    def cmp(x, y):
        for e, asc in terms:
            a, b = eval_e(e, x), eval_e(e, y)
            if a != b:
                return (-1 if a < b else 1) * (1 if asc else -1)
        return 0

    return sorted(rows, key=functools.cmp_to_key(cmp))


def dedup_rows(rows, check_fd):
    """First occurrence of each distinct row.  With check_fd, rows that agree on the key columns must agree
    everywhere (the documented `ColumnTag.is_key` assumption); otherwise the case is outside the domain."""
    seen = set()
    out = []
    by_key = {}
    for r in rows:
        if check_fd:
            kk = tuple(sorted((name_of(t), v) for t, v in r.items() if t.is_key))
            full = row_key(r)
            if by_key.setdefault(kk, full) != full:
                raise OutOfDomain("dedup: key columns do not determine the row (P1)")
        kk = row_key(r)
        if kk not in seen:
            seen.add(kk)
            out.append(r)
    return out


def join_rows(L, R, common, pred):
    out = []
    for x in L:
        for y in R:
            if all(x[t] == y[t] for t in common):
                row = {**x, **y}
                if pred is None or eval_p(pred, row):
                    out.append(row)
    return out


def natural_common(ls, rs):
    return [t for t in sorted_tags(ls & rs) if t.is_key]


def ev_list(prog, leaves, check_fd=True, memo=None):
    """Direct evaluation with list (order preserving) semantics."""
    if memo is not None and id(prog) in memo:
        return memo[id(prog)]
    k = prog[0]
    if k == "leaf":
        out = leaf_rows(leaves[prog[1]])
    elif k == "calc":
        out = [{**r, prog[2]: eval_e(prog[3], r)} for r in ev_list(prog[1], leaves, check_fd, memo)]
    elif k == "proj":
        out = [{t: r[t] for t in prog[2]} for r in ev_list(prog[1], leaves, check_fd, memo)]
    elif k == "sel":
        out = [r for r in ev_list(prog[1], leaves, check_fd, memo) if eval_p(prog[2], r)]
    elif k == "dedup":
        out = dedup_rows(ev_list(prog[1], leaves, check_fd, memo), check_fd)
    elif k == "sort":
        out = sort_rows(ev_list(prog[1], leaves, check_fd, memo), prog[2])
    elif k == "slice":
        out = ev_list(prog[1], leaves, check_fd, memo)[prog[2] : prog[3]]
    elif k == "chain":
        out = ev_list(prog[1], leaves, check_fd, memo) + ev_list(prog[2], leaves, check_fd, memo)
    elif k == "join":
        common = natural_common(schema(prog[1], leaves), schema(prog[2], leaves))
        out = join_rows(ev_list(prog[1], leaves, check_fd, memo), ev_list(prog[2], leaves, check_fd, memo), common, prog[3])
    elif k == "joinx":
        out = join_rows(ev_list(prog[1], leaves, check_fd, memo), ev_list(prog[2], leaves, check_fd, memo), prog[4], prog[3])
    elif k in ("mat", "xfer", "mark"):
        out = ev_list(prog[1], leaves, check_fd, memo)
    else:
        raise AssertionError(prog)
    if memo is not None:
        memo[id(prog)] = out
    return out


# ---------------------------------------------------------------- reference evaluator: bag semantics + determinacy


@dataclasses.dataclass
class Res:
    rows: list  # det: the exact rows (list order meaningful iff ordered); not det: a multiset superset
    ordered: bool  # row order is promised (C11) and equals the order of `rows`
    det: bool  # multiset content is determined
    count: int | None  # exact row count when known (always len(rows) when det)
    adj_terms: tuple = ()  # merged terms of the run of sorts that ends exactly here
    oterms: tuple = ()  # the terms the `ordered` promise rests on
    classes: tuple = ()
    seq: bool = False  # `rows` is in the order of a total sort held by the same query level, although that order is not
    # observable any more (a projection dropped a sort column): a slice still takes positions of that order (C11, first clause)


def is_total(terms, rows):
    groups = {}
    for r in rows:
        k = tuple(eval_e(e, r) for e, _ in terms)
        full = row_key(r)
        if groups.setdefault(k, full) != full:
            return False
    return True


def _window(n, start, stop):
    hi = n if stop is None else min(stop, n)
    return max(hi - start, 0)


def ev_bag(prog, leaves, marker_sort=None, memo=None, stats=None):
    """Direct evaluation for engines that promise order only through sorts (SQL).

    marker_sort(node) -> terms | None: the terms of the sort recorded on the outermost query level of the
    library relation built for `node` (gate G1 of C11), or None.
    """
    if memo is not None and id(prog) in memo:
        return memo[id(prog)]
    k = prog[0]

    def sub(i=1):
        return ev_bag(prog[i], leaves, marker_sort, memo, stats)

    if k == "leaf":
        rows = leaf_rows(leaves[prog[1]])
        res = Res(rows, False, True, len(rows))
    elif k in ("calc", "sel"):
        s = sub()
        if k == "calc":
            rows = [{**r, prog[2]: eval_e(prog[3], r)} for r in s.rows]
            cnt = s.count
        else:
            rows = [r for r in s.rows if eval_p(prog[2], r)]
            cnt = len(rows) if s.det else None
        res = Res(rows, False, s.det, cnt)
    elif k == "proj":
        s = sub()
        keep = frozenset(prog[2])
        rows = [{t: r[t] for t in prog[2]} for r in s.rows]
        need = frozenset().union(*[cols_e(e) for e, _ in s.oterms]) if s.oterms else frozenset()
        ordered = s.ordered and need <= keep
        res = Res(rows, ordered, s.det, s.count, (), s.oterms if ordered else (), seq=s.det and (s.ordered or s.seq))
    elif k == "dedup":
        s = sub()
        rows = dedup_rows(s.rows, False)
        res = Res(rows, s.ordered, s.det, len(rows) if s.det else None, (), s.oterms if s.ordered else ())
    elif k == "sort":
        s = sub()
        terms = tuple(prog[2]) + tuple(t for t in s.adj_terms if t not in prog[2])
        rows = sort_rows(s.rows, prog[2])
        ordered = s.det and is_total(terms, rows)
        res = Res(rows, ordered, s.det, s.count, terms, terms if ordered else ())
    elif k == "slice":
        s = sub()
        start, stop = prog[2], prog[3]
        if not s.det:
            res = Res(s.rows, False, False, None if s.count is None else _window(s.count, start, stop))
        else:
            n = len(s.rows)
            w = _window(n, start, stop)
            if s.ordered:
                res = Res(s.rows[start:stop], True, True, w, (), s.oterms, seq=True)
            elif s.seq:
                res = Res(s.rows[start:stop], False, True, w, seq=True)
                if stats is not None:
                    stats["slices_over_hidden_sort_column"] += 1
            elif w == n or w == 0 or all(row_key(r) == row_key(s.rows[0]) for r in s.rows):
                res = Res(s.rows[start:stop], False, True, w)
            else:
                forced = None
                if marker_sort is not None:
                    terms = marker_sort(prog[1])
                    if terms and all(cols_e(e) <= schema(prog[1], leaves) for e, _ in terms):
                        if is_total(terms, s.rows):
                            forced = sort_rows(s.rows, terms)[start:stop]
                            if stats is not None:
                                stats["g1_forced_slices"] += 1
                if forced is not None:
                    res = Res(forced, False, True, w)
                else:
                    res = Res(s.rows, False, False, w)
    elif k == "chain":
        a, b = sub(1), sub(2)
        det = a.det and b.det
        cnt = None if a.count is None or b.count is None else a.count + b.count
        res = Res(a.rows + b.rows, False, det, cnt)
    elif k in ("join", "joinx"):
        a, b = sub(1), sub(2)
        common = prog[4] if k == "joinx" else natural_common(schema(prog[1], leaves), schema(prog[2], leaves))
        rows = join_rows(a.rows, b.rows, common, prog[3])
        det = a.det and b.det
        res = Res(rows, False, det, len(rows) if det else None)
    elif k in ("mat", "xfer", "mark"):
        s = sub()
        res = Res(s.rows, False, s.det, s.count)
    else:
        raise AssertionError(prog)
    if memo is not None:
        memo[id(prog)] = res
    return res


def ev_multi(prog, leaves, marker_sort=None, memo=None, stats=None):
    """Direct evaluation of a multi-engine program with order/determinacy labels.

    Nodes living in the SQL engine (index 0) follow the bag rules of `ev_bag`; nodes living in an iteration engine
    preserve whatever order their input has (the engine is documented to preserve order through every operation but
    sorts, which are stable), so `ordered` there means "the exact row sequence is determined".
    """
    if memo is not None and id(prog) in memo:
        return memo[id(prog)]
    k = prog[0]
    eng = engine_of(prog, leaves)
    if eng == 0 and k != "xfer":
        # the operands of an SQL node are evaluated with this function too (they may contain transfers)
        res = _ev_sql_node(prog, leaves, marker_sort, memo, stats)
    else:
        res = _ev_iter_node(prog, leaves, marker_sort, memo, stats)
    if memo is not None:
        memo[id(prog)] = res
    return res


def _ev_sql_node(prog, leaves, marker_sort, memo, stats):
    # ev_bag on a shallow program whose operands are pre-evaluated results
    subs = {id(c): ev_multi(c, leaves, marker_sort, memo, stats) for c in children(prog)}
    local = dict(subs)
    return _bag_step(prog, leaves, marker_sort, local, stats)


def _bag_step(prog, leaves, marker_sort, memo, stats):
    """One step of ev_bag with the children's results supplied through memo."""
    saved = memo.pop(id(prog), None)
    try:
        return ev_bag(prog, leaves, marker_sort, memo, stats)
    finally:
        if saved is not None:
            memo[id(prog)] = saved


def _ev_iter_node(prog, leaves, marker_sort, memo, stats):
    k = prog[0]

    def sub(i=1):
        return ev_multi(prog[i], leaves, marker_sort, memo, stats)

    if k == "leaf":
        rows = leaf_rows(leaves[prog[1]])
        return Res(rows, True, True, len(rows))
    if k == "xfer":
        s = sub()
        if prog[2] == 0:
            return Res(s.rows, False, s.det, s.count)
        return Res(s.rows, s.ordered, s.det, s.count, (), s.oterms)
    if k in ("mat", "mark"):
        s = sub()
        return Res(s.rows, s.ordered, s.det, s.count, (), s.oterms)
    if k == "calc":
        s = sub()
        return Res([{**r, prog[2]: eval_e(prog[3], r)} for r in s.rows], s.ordered, s.det, s.count)
    if k == "sel":
        s = sub()
        rows = [r for r in s.rows if eval_p(prog[2], r)]
        return Res(rows, s.ordered, s.det, len(rows) if s.det else None)
    if k == "proj":
        s = sub()
        return Res([{t: r[t] for t in prog[2]} for r in s.rows], s.ordered, s.det, s.count)
    if k == "dedup":
        s = sub()
        rows = dedup_rows(s.rows, s.det)
        return Res(rows, s.ordered, s.det, len(rows) if s.det else None)
    if k == "sort":
        s = sub()
        rows = sort_rows(s.rows, prog[2])
        ordered = s.det and (s.ordered or is_total(prog[2], rows))
        return Res(rows, ordered, s.det, s.count, (), tuple(prog[2]) if ordered else ())
    if k == "slice":
        s = sub()
        start, stop = prog[2], prog[3]
        if not s.det:
            return Res(s.rows, False, False, None if s.count is None else _window(s.count, start, stop))
        n = len(s.rows)
        w = _window(n, start, stop)
        if s.ordered:
            return Res(s.rows[start:stop], True, True, w)
        if w == n or w == 0 or all(row_key(r) == row_key(s.rows[0]) for r in s.rows):
            return Res(s.rows[start:stop], False, True, w)
        return Res(s.rows, False, False, w)
    if k == "chain":
        a, b = sub(1), sub(2)
        det = a.det and b.det
        cnt = None if a.count is None or b.count is None else a.count + b.count
        return Res(a.rows + b.rows, a.ordered and b.ordered and det, det, cnt)
    if k in ("join", "joinx"):
        a, b = sub(1), sub(2)
        common = prog[4] if k == "joinx" else natural_common(schema(prog[1], leaves), schema(prog[2], leaves))
        rows = join_rows(a.rows, b.rows, common, prog[3])
        det = a.det and b.det
        return Res(rows, False, det, len(rows) if det else None)
    raise AssertionError(prog)


def multiset(rows):
    out = {}
    for r in rows:
        k = row_key(r)
        out[k] = out.get(k, 0) + 1
    return out


def compare(res, got):
    """Compare fetched rows (list of dicts keyed by tag) with a `Res`; returns None or a mismatch description."""
    if res.ordered:
        if [row_key(r) for r in got] != [row_key(r) for r in res.rows]:
            kind = "order" if multiset(got) == multiset(res.rows) else "content"
            return f"{kind} mismatch (ordered): expected {show_rows(res.rows)} got {show_rows(got)}"
        return None
    if res.det:
        if multiset(got) != multiset(res.rows):
            return f"content mismatch (multiset): expected {show_rows(res.rows)} got {show_rows(got)}"
        return None
    sup = multiset(res.rows)
    for k, n in multiset(got).items():
        if sup.get(k, 0) < n:
            return f"row {k} x{n} not admissible (superset {show_rows(res.rows)}) got {show_rows(got)}"
    if res.count is not None and len(got) != res.count:
        return f"row count {len(got)} != determined count {res.count}"
    return None


def show_rows(rows, limit=12):
    body = [{name_of(t): v for t, v in sorted(r.items(), key=lambda kv: name_of(kv[0]))} for r in rows[:limit]]
    return f"{body}{'...' if len(rows) > limit else ''}"


# ---------------------------------------------------------------- builder


class BuildError(Exception):
    """A factory call raised; `node` is the program node whose call failed, `exc` the library exception."""

    def __init__(self, node, exc):
        super().__init__(f"{type(exc).__name__}: {exc}")
        self.node = node
        self.exc = exc


def apply_node(node, operands, env, **opts):
    """Issue the public factory call for program node `node` on already built operand relations."""
    from lsst.daf.relation import SortTerm

    k = node[0]
    rel = operands[0]
    if k == "calc":
        return rel.with_calculated_column(node[2], lib_e(node[3]), **opts)
    if k == "proj":
        return rel.with_only_columns(_ordered_set(node[2]), **opts)
    if k == "sel":
        return rel.with_rows_satisfying(lib_p(node[2]), **opts)
    if k == "dedup":
        return rel.without_duplicates(**opts)
    if k == "sort":
        return rel.sorted([SortTerm(lib_e(e), asc) for e, asc in node[2]], **opts)
    if k == "slice":
        if opts:
            from lsst.daf.relation import Slice

            return Slice(node[2], node[3]).apply(rel, **opts)
        return rel[node[2] : node[3]]
    if k == "chain":
        return rel.chain(operands[1])
    if k == "join":
        return rel.join(operands[1], lib_p(node[3]) if node[3] is not None else None, **opts)
    if k == "mat":
        return rel.materialized(name=node[2])
    if k == "xfer":
        return rel.transferred_to(env.engines[node[2]])
    if k == "mark":
        return note_marker()(target=rel)
    raise AssertionError(node)


_NOTE = None


def note_marker():
    """A user-defined marker relation (documented extension point): carries no state, changes nothing."""
    global _NOTE
    if _NOTE is None:
        import dataclasses as _dc

        from lsst.daf.relation import MarkerRelation

        @_dc.dataclass(frozen=True)
        class Note(MarkerRelation):
            def __str__(self):
                return f"note({self.target})"

        _NOTE = Note
    return _NOTE


def _ordered_set(tags):
    s = set()
    for t in tags:
        s.add(t)
    return s


def build_all(prog, env, rels=None):
    """Build every sub-relation of `prog` bottom-up through the public factories.

    Returns {id(node): relation}.  Raises BuildError at the first factory call that raises.
    """
    if rels is None:
        rels = {}
    for node in walk(prog):
        if id(node) in rels:
            continue
        if node[0] == "leaf":
            rels[id(node)] = env.leafrels[node[1]]
            continue
        ops = [rels[id(c)] for c in children(node)]
        try:
            rels[id(node)] = apply_node(node, ops, env)
        except Exception as exc:  # classified by the caller through BuildError.exc
            raise BuildError(node, exc) from exc
    return rels


# ---------------------------------------------------------------- decoder (library tree -> program)


def decode_op(op):
    """Decode a library unary operation to (kind, params...) matching program nodes without the source."""
    from lsst.daf.relation import Calculation, Deduplication, Projection, Selection, Slice, Sort

    if isinstance(op, Calculation):
        return ("calc", op.tag, from_lib_e(op.expression))
    if isinstance(op, Projection):
        return ("proj", tuple(sorted_tags(op.columns)))
    if isinstance(op, Selection):
        return ("sel", from_lib_p(op.predicate))
    if isinstance(op, Deduplication):
        return ("dedup",)
    if isinstance(op, Sort):
        return ("sort", tuple((from_lib_e(t.expression), bool(t.ascending)) for t in op.terms))
    if isinstance(op, Slice):
        return ("slice", op.start, op.stop)
    from .expr import Undecodable

    raise Undecodable(repr(op))


def with_src(opspec, src):
    return (opspec[0], src) + tuple(opspec[1:])


def decode(rel, env):
    """Decode a library relation tree to a program over env's leaves (leaves matched by name)."""
    from lsst.daf.relation import (
        BinaryOperationRelation,
        Chain,
        Join,
        LeafRelation,
        MarkerRelation,
        Materialization,
        Transfer,
        UnaryOperationRelation,
    )

    from .expr import Undecodable

    if isinstance(rel, LeafRelation):
        return ("leaf", env.leaf_index(rel))
    if isinstance(rel, UnaryOperationRelation):
        return with_src(decode_op(rel.operation), decode(rel.target, env))
    if isinstance(rel, BinaryOperationRelation):
        l, r = decode(rel.lhs, env), decode(rel.rhs, env)
        if isinstance(rel.operation, Chain):
            return ("chain", l, r)
        if isinstance(rel.operation, Join):
            p = from_lib_p(rel.operation.predicate)
            return ("joinx", l, r, None if p == ("plit", True) else p, tuple(sorted_tags(rel.operation.common_columns)))
        raise Undecodable(repr(rel.operation))
    if isinstance(rel, Materialization):
        return ("mat", decode(rel.target, env), rel.name)
    if isinstance(rel, Transfer):
        return ("xfer", decode(rel.target, env), env.engine_index(rel.destination))
    if isinstance(rel, MarkerRelation):
        return decode(rel.target, env)
    raise Undecodable(repr(rel))


def lib_nodes(rel):
    """Pre-order iteration over every node of a library tree (through target / lhs / rhs)."""
    from lsst.daf.relation import BinaryOperationRelation, LeafRelation, MarkerRelation, UnaryOperationRelation

    stack = [rel]
    while stack:
        r = stack.pop()
        yield r
        if isinstance(r, (UnaryOperationRelation, MarkerRelation)):
            stack.append(r.target)
        elif isinstance(r, BinaryOperationRelation):
            stack.append(r.rhs)
            stack.append(r.lhs)
        else:
            assert isinstance(r, LeafRelation), type(r)


def count_op_nodes(rel):
    from lsst.daf.relation import BinaryOperationRelation, UnaryOperationRelation

    return sum(1 for r in lib_nodes(rel) if isinstance(r, (UnaryOperationRelation, BinaryOperationRelation)))


def describe_case(universe, leaves, prog, **extra):
    d = {
        "tags": [f"{t.qualified_name}{'' if t.is_key else '*'}#{t.h}" for t in universe],
        "leaves": fmt_leaves(leaves),
        "program": fmt(prog, leaves),
    }
    d.update(extra)
    return d


def twin_leaves(leaves):
    """Leaf specs with the same names, columns, engines and kinds but different rows (reversed, last row dropped)."""
    out = []
    for name, cols, rows, eng, kind, bounds, variant in leaves:
        if kind != "data":
            out.append((name, cols, rows, eng, kind, bounds, variant))
            continue
        rows2 = tuple(rows[::-1][:-1]) if rows else ((tuple(0 for _ in cols),) if cols else ())
        out.append((name, cols, rows2, eng, kind, (len(rows2), len(rows2)), variant))
    return tuple(out)
