"""Structural fingerprints of library relation trees (used to show that calls do not change existing relations)."""
from __future__ import annotations

from .tags import name_of


def payload_fp(payload, _stack=()):
    """Content of a payload: rows for iteration payloads; FROM text, WHERE list and available keys for SQL payloads."""
    if payload is None:
        return None
    if id(payload) in _stack:  # a lazy chain that (after a faulty in-place extension) contains itself
        return ("cycle", len(_stack))
    try:
        from lsst.daf.relation import iteration, sql

        if isinstance(payload, sql.Payload):
            return (
                "sql",
                str(payload.from_clause),
                tuple(str(w) for w in payload.where),
                tuple(sorted((name_of(k), str(v)) for k, v in payload.columns_available.items())),
            )
        if isinstance(payload, iteration.RowMapping):
            return ("map", tuple(tuple(sorted((name_of(k), v) for k, v in r.items())) for r in payload.rows.values()))
        if isinstance(payload, iteration.RowSequence):
            return ("seq", tuple(tuple(sorted((name_of(k), v) for k, v in r.items())) for r in payload.rows))
        if isinstance(payload, iteration.ChainRowIterable):
            # a lazy stored payload: its operand list is content (an evaluation must not extend or reorder it)
            return ("lazy-chain", tuple(payload_fp(part, _stack + (id(payload),)) for part in list(payload.chain)[:64]), len(payload.chain))
        if hasattr(payload, "_rows"):
            return ("custom", tuple(tuple(sorted((name_of(k), v) for k, v in r.items())) for r in payload._rows))
    except Exception as e:  # pragma: no cover
        return ("unprintable", repr(e))
    return ("other", type(payload).__name__)


def fingerprint(rel, marker_payloads=True, _memo=None):
    from lsst.daf.relation import (
        BinaryOperationRelation,
        LeafRelation,
        MarkerRelation,
        Materialization,
        Transfer,
        UnaryOperationRelation,
    )

    if _memo is None:
        _memo = {}
    if id(rel) in _memo:
        return _memo[id(rel)]
    base = (
        type(rel).__name__,
        tuple(sorted(name_of(c) for c in rel.columns)),
        rel.min_rows,
        rel.max_rows,
        str(rel.engine),
        bool(rel.is_locked),
    )
    if isinstance(rel, LeafRelation):
        out = base + (rel.name, repr(rel.parameters), tuple(rel.messages), payload_fp(rel.payload))
    elif isinstance(rel, UnaryOperationRelation):
        out = base + (repr(rel.operation), fingerprint(rel.target, marker_payloads, _memo))
    elif isinstance(rel, BinaryOperationRelation):
        out = base + (repr(rel.operation), fingerprint(rel.lhs, marker_payloads, _memo), fingerprint(rel.rhs, marker_payloads, _memo))
    elif isinstance(rel, MarkerRelation):
        extra = ()
        if isinstance(rel, Materialization):
            extra = (rel.name,) + ((rel.payload is not None,) if marker_payloads else ())
        elif isinstance(rel, Transfer):
            extra = (str(rel.destination), rel.payload is not None)
        else:
            extra = (repr({k: v for k, v in rel.__dict__.items() if k not in ("target", "payload", "skip_to")}), rel.payload is not None)
        out = base + extra + (fingerprint(rel.target, marker_payloads, _memo),)
    else:
        out = base + ("?",)
    _memo[id(rel)] = out
    return out


def snapshot(rel):
    """Everything C09 says must never change: structure, columns, bounds, str, repr, equality key, hash."""
    try:
        h = hash(rel)
    except TypeError as e:
        h = ("unhashable", str(e)[:60])
    return (fingerprint(rel, marker_payloads=False), str(rel), repr(rel), h)
