"""Types shared by the runner and the checks."""
from __future__ import annotations


class Violation(Exception):
    """The property under test does not hold for the current case."""

    def __init__(self, kind, detail="", **extra):
        super().__init__(f"{kind}: {detail}")
        self.kind = kind
        self.detail = detail
        self.extra = extra
