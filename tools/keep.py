"""Turn a violation file written by a run into a committed replay file.
usage: tools/keep.py <violation.json> <ID> <name> <expect: pass|violation> <key> <what...>"""
import json, sys, os
src, cid, name, expect, key = sys.argv[1:6]
what = " ".join(sys.argv[6:])
d = json.load(open(src))
out = {"property": cid, "expect": expect, "key": key or None, "what": what, "describe": d.get("describe"), "case": d["case"]}
os.makedirs(f"/verif/replays/{cid}", exist_ok=True)
json.dump(out, open(f"/verif/replays/{cid}/{name}.json", "w"), indent=1)
print("wrote", f"replays/{cid}/{name}.json")
