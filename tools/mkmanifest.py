"""Regenerate MANIFEST.json from the check modules present in vf/checks (run: /venv/bin/python tools/mkmanifest.py)."""
import importlib
import json
import os
import sys

ROOT = os.path.dirname(os.path.dirname(os.path.abspath(__file__)))
sys.path.insert(0, ROOT)
sys.path.insert(0, "/repo/python")

props = [json.loads(l) for l in open(os.path.join(ROOT, "properties.jsonl"))]
checks = []
na = []
for p in props:
    pid = p["id"]
    path = os.path.join(ROOT, "vf", "checks", pid.lower() + ".py")
    if not os.path.exists(path):
        na.append({"property_id": pid, "reason": "check not built yet in this session; planned in DESIGN.md section 5"})
        continue
    m = importlib.import_module(f"vf.checks.{pid.lower()}")
    checks.append(
        {
            "property_id": pid,
            "quick_cmd": f"./run_check {pid} --tier quick",
            "thorough_cmd": f"./run_check {pid} --tier thorough",
            "evidence_file": f"/verif/evidence/{pid}.json",
            "replay_cmd_template": f"./run_check {pid} --replay {{path}}",
            "engine": "vf",
            "level_claimed": {
                "category": m.LEVEL,
                "text": m.LEVEL_TEXT,
                "design_ref": f"DESIGN.md section 5, {pid}",
            },
            "level_note": m.LEVEL_NOTE,
            "technique": m.TECHNIQUE
            + ("" if pid == "C19" else "; thorough tier: followed by a coverage-guided campaign (atheris / libFuzzer mutating the bytes that Hypothesis decodes into cases of the same strategy, same oracle)"),
        }
    )
manifest = {
    "version": 1,
    "setup_cmd": "./setup.sh",
    "hooks": {
        "guard": "LSST_DAF_RELATION_VERIF",
        "enable": "no hooks are needed: the checks observe the library through its public API, harness payloads and harness subclasses; the guard variable is reserved and unused",
        "baseline_off_cmd": "cd /repo && /venv/bin/python -m pytest -ra -q -p no:cacheprovider --timeout=900 --continue-on-collection-errors",
        "source_commits": [],
        "add_only": True,
    },
    "engines": [
        {
            "name": "vf",
            "path": "/verif/vf",
            "serves_properties": [c["property_id"] for c in checks],
            "kind_free_text": "Hypothesis-driven generated-input search (16 shards) + exhaustive finite sub-spaces against an independent reference evaluator, real SQLite and a real Processor; replay tier of saved inputs; known-finding attribution",
        }
    ],
    "checks": checks,
    "not_applicable": na,
    "notes": "All checks: ./run_check <ID> --tier quick|thorough, seed from VERIF_SEED, PYTHONHASHSEED pinned to 0 by the wrapper. Exit 2 = harness error (never a violation). Fix commits in /repo are listed in known_findings.json. setup.sh installs hypothesis into /venv if missing and atheris under /verif/.deps (offline wheelhouse); without atheris the thorough tier skips its coverage-guided part with a NOTE.",
}
json.dump(manifest, open(os.path.join(ROOT, "MANIFEST.json"), "w"), indent=1)
print("checks:", [c["property_id"] for c in checks], "not_applicable:", len(na))
