"""Confirm a batch of sub-agent seeds and run the quick checks against them.
usage: tools/wave.py <spec> [<spec> ...]   with spec = <worktree>:<n>:<seed-id>:<primary property>[:also,also]
For each spec: tools/seedtest.py with the primary property (stores the seed when confirmed); when the primary check
does not catch it, every other property's quick check is run against the stored seed as well.  One summary line per seed.
"""
import json, os, subprocess, sys

ROOT = os.environ.get("VERIF_ROOT", "/verif")
ALL = [f"C{i:02d}" for i in range(1, 21)]
for spec in sys.argv[1:]:
    wt, n, sid, prim, *rest = spec.split(":")
    also = rest[0].split(",") if rest and rest[0] else []
    p = subprocess.run(["/venv/bin/python", f"{ROOT}/tools/seedtest.py", wt, n, sid, prim] + also, capture_output=True, text=True)
    mp = f"{ROOT}/seeded/{sid}/meta.json"
    if not os.path.exists(mp):
        print(f"{sid}: NOT CONFIRMED  {p.stdout[-600:]} {p.stderr[-300:]}", flush=True)
        continue
    meta = json.load(open(mp))
    caught = [k for k, v in meta["checks"].items() if v.get("caught")]
    if not caught:
        others = [c for c in ALL if c not in meta["checks"]]
        subprocess.run(["/venv/bin/python", f"{ROOT}/tools/seedtest.py", "stored", "-", sid, prim] + others, capture_output=True, text=True)
        meta = json.load(open(mp))
        caught = [k for k, v in meta["checks"].items() if v.get("caught")]
    harness = [k for k, v in meta["checks"].items() if v.get("exit") == 2]
    first = next((v["first"][:160] for k, v in meta["checks"].items() if v.get("caught")), "")
    print(f"{sid}: confirmed={meta['confirmed']} caught_by={caught or '-'} harness_err={harness or '-'} :: {first}", flush=True)
