#!/bin/bash
# Run every registered quick check at the given seeds (default 1..3) without touching evidence; report non-zero exits.
cd /verif
seeds="${@:-1 2 3}"
ids=$(python3 -c "import json; print(' '.join(c['property_id'] for c in json.load(open('MANIFEST.json'))['checks']))")
for s in $seeds; do for c in $ids; do
  out=$(VERIF_SEED=$s ./run_check $c --no-evidence 2>&1); rc=$?
  if [ $rc -ne 0 ]; then echo "!! $c seed=$s exit=$rc"; echo "$out" | grep -v "conda\|KNOWN" | cut -c1-600 | tail -4; fi
done; done; echo "quiet run done for seeds: $seeds"
