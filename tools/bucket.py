"""Exploration helper: run a check's cases and bucket violations by signature instead of stopping at the first.
usage: tools/bucket.py <ID> <n_examples> [seed] [known,keys]"""
import sys, os, collections, re
sys.path.insert(0, "/verif"); os.environ.setdefault("PYTHONHASHSEED", "0")
from vf.runner import setup_path, load_check, Stats, run_one
setup_path()
import hypothesis
from hypothesis import given, settings, HealthCheck, Phase
from vf.core.base import Violation
cid, n = sys.argv[1], int(sys.argv[2]); seed = int(sys.argv[3]) if len(sys.argv) > 3 else 1
check = load_check(cid); stats = Stats()
buckets = collections.Counter(); examples = {}
known = frozenset(sys.argv[4].split(",")) if len(sys.argv) > 4 else frozenset()
@hypothesis.seed(seed)
@settings(max_examples=n, deadline=None, database=None, phases=[Phase.generate], suppress_health_check=list(HealthCheck))
@given(check.strategy("quick"))
def t(case):
    try:
        run_one(check, case, stats, known)
    except Violation as v:
        extra = {k: v.extra[k] for k in ("sig", "pair", "diff", "half", "field", "symptom", "phase") if k in v.extra}
        msg = re.sub(r"\d+", "N", str(v.extra.get("msg", "")).split("[SQL")[0][:60])
        sig = (v.kind, tuple(sorted(extra.items())), msg, getattr(v, "attributed", None))
        buckets[sig] += 1
        d = str(check.describe(case))
        if sig not in examples or len(d) < len(examples[sig][0]):
            examples[sig] = (d, v.detail[:700])
t()
print("evaluations", stats.evaluations, {k: v for k, v in stats.c.items() if k.startswith(("attr", "disc", "build"))})
for sig, cnt in buckets.most_common():
    print("==", cnt, sig); print("   ", examples[sig][1][:600].replace("\n", " "))
