"""Run every quick check against a change that is meant to keep all properties true (false-alarm control).
usage: tools/benigntest.py <worktree> <n> <benign-id>        (reads <worktree>/benign<n>.diff, bnotes<n>.md)
       tools/benigntest.py stored - <benign-id> [props...]    (re-run a stored one; default: all properties)
Copies /repo (python+tests) to a scratch dir, applies the patch, runs the repo tests (must pass), then the quick checks
against the scratch copy.  Stores /verif/benign/<benign-id>/{patch.diff,notes.md,meta.json}.  A check that exits non-zero
here is either a false alarm (fix the machinery) or shows that the change was not benign after all (say so in meta.json
'verdict' by hand)."""
import json, os, shutil, subprocess, sys, tempfile, time

wt, n, bid, *props = sys.argv[1:]
ROOT = os.environ.get("VERIF_ROOT", "/verif")
STORED = wt == "stored"
d = f"{ROOT}/benign/{bid}"
if STORED:
    patch_file, notes_file = f"{d}/patch.diff", f"{d}/notes.md"
    old = json.load(open(f"{d}/meta.json"))
else:
    patch_file, notes_file = f"{wt}/benign{n}.diff", f"{wt}/bnotes{n}.md"
    old = {}
if not props:
    props = [c["property_id"] for c in json.load(open(f"{ROOT}/MANIFEST.json"))["checks"]]


def run(cmd, env=None, cwd=None):
    e = dict(os.environ)
    e.update(env or {})
    p = subprocess.run(cmd, shell=True, cwd=cwd, env=e, capture_output=True, text=True)
    return p.returncode, p.stdout + p.stderr


scratch = tempfile.mkdtemp(prefix="vfbenign-", dir="/tmp")
meta = {"benign": bid, "source": old.get("source", f"sub-agent worktree {wt} benign{n}")}
for k in ("verdict", "note"):
    if k in old:
        meta[k] = old[k]
try:
    shutil.copytree("/repo/python", f"{scratch}/python", ignore=shutil.ignore_patterns("__pycache__", "*.egg-info"))
    shutil.copytree("/repo/tests", f"{scratch}/tests", ignore=shutil.ignore_patterns("__pycache__"))
    rc, out = run(f"patch -p1 < {patch_file}", cwd=scratch)
    assert rc == 0, out
    env = {"PYTHONPATH": f"{scratch}/python", "PYTHONDONTWRITEBYTECODE": "1"}
    rct, outt = run("/venv/bin/python -m pytest -q -p no:cacheprovider tests 2>&1 | tail -2", env=env, cwd=scratch)
    meta["tests_pass_with_change"] = " passed" in outt and "failed" not in outt
    checks = dict(old.get("checks", {})) if STORED else {}
    for pid in props:
        t0 = time.time()
        rc, log = run(f"./run_check {pid} --tier quick --no-evidence", env={"VERIF_REPO_PYTHON": f"{scratch}/python"}, cwd=ROOT)
        first = [l.strip()[:500] for l in log.splitlines() if l.startswith("  ")][:1]
        checks[pid] = {"exit": rc, "quiet": rc == 0, "wall_s": round(time.time() - t0, 1), "first": first[0] if first else ""}
        if rc == 2:
            checks[pid]["harness"] = log[-600:]
    meta["checks"] = checks
    meta["alarms"] = sorted(p for p, v in checks.items() if not v["quiet"])
    meta["what_was_run"] = "scratch copy of /repo python+tests; patch -p1; pytest tests; ./run_check <ID> --tier quick with VERIF_REPO_PYTHON=<scratch>/python"
    os.makedirs(d, exist_ok=True)
    if not STORED:
        shutil.copy(patch_file, f"{d}/patch.diff")
        if os.path.exists(notes_file):
            shutil.copy(notes_file, f"{d}/notes.md")
    json.dump(meta, open(f"{d}/meta.json", "w"), indent=1)
    print(json.dumps({"benign": bid, "tests": meta["tests_pass_with_change"], "alarms": {p: checks[p]["first"][:300] for p in meta["alarms"]}}, indent=1))
finally:
    shutil.rmtree(scratch, ignore_errors=True)
