#!/bin/bash
# usage: tools/trypatch.sh <patch file> <ID> [<ID> ...]   - run quick checks against a scratch copy of /repo with the patch applied
d=$(mktemp -d /tmp/vftry-XXXXXX); cp -r /repo/python $d/python; (cd $d && patch -p1 -s < "$1") || { echo "patch failed"; rm -rf $d; exit 2; }
shift
for c in "$@"; do VERIF_REPO_PYTHON=$d/python /verif/run_check $c --no-evidence 2>&1 | grep -v "^KNOWN\|^FROM\|^WHERE\|^\[SQL\|^\[param" | tail -3 | cut -c1-500; done
rm -rf $d
