"""Clean re-run of a set of stored seeds: own property first, every other property only when the own check misses.
usage: tools/resweep.py <substring of meta['source']>      (VERIF_ROOT selects the checkout; results go to its seeded/)"""
import glob, json, os, subprocess, sys

ROOT = os.environ.get("VERIF_ROOT", "/verif")
ALL = [f"C{i:02d}" for i in range(1, 21)]
for d in sorted(glob.glob(f"{ROOT}/seeded/*/")):
    sid = os.path.basename(d.rstrip("/"))
    meta = json.load(open(d + "meta.json"))
    if sys.argv[1] not in meta.get("source", ""):
        continue
    meta["checks"] = {}
    json.dump(meta, open(d + "meta.json", "w"), indent=1)
    prim = meta["breaks"]
    subprocess.run(["/venv/bin/python", f"{ROOT}/tools/seedtest.py", "stored", "-", sid, prim], capture_output=True, text=True)
    meta = json.load(open(d + "meta.json"))
    if not meta["checks"].get(prim, {}).get("caught"):
        subprocess.run(["/venv/bin/python", f"{ROOT}/tools/seedtest.py", "stored", "-", sid, prim] + [c for c in ALL if c != prim], capture_output=True, text=True)
        meta = json.load(open(d + "meta.json"))
    caught = [k for k, v in meta["checks"].items() if v.get("caught")]
    harness = [k for k, v in meta["checks"].items() if v.get("exit") == 2]
    print(f"{sid}: confirmed={meta.get('confirmed')} caught_by={caught or '-'} harness_err={harness or '-'}", flush=True)
