"""Verify a seeded change and run checks against it.
usage: tools/seedtest.py <worktree> <n> <seed-id> <primary property> [other properties...]
Copies /repo (python+tests) to a scratch dir, applies <worktree>/seed<n>.diff, runs the repo tests (must pass), the demo
with and without the change, then the quick checks of the given properties against the scratch copy.  On success stores
/verif/seeded/<seed-id>/{patch.diff,demo.py,notes.md,meta.json}."""
import json, os, shutil, subprocess, sys, tempfile, time

wt, n, sid, *props = sys.argv[1:]
ROOT = os.environ.get("VERIF_ROOT", "/verif")
STORED = wt == "stored"  # re-run a seed already kept under /verif/seeded/<sid>/  (usage: seedtest.py stored - <sid> props...)
if STORED:
    patch_file, demo_file, notes_file = (f"{ROOT}/seeded/{sid}/{f}" for f in ("patch.diff", "demo.py", "notes.md"))
    old_meta = json.load(open(f"{ROOT}/seeded/{sid}/meta.json"))
else:
    patch_file, demo_file, notes_file = f"{wt}/seed{n}.diff", f"{wt}/demo{n}.py", f"{wt}/notes{n}.md"
def run(cmd, env=None, cwd=None):
    e = dict(os.environ); e.update(env or {})
    p = subprocess.run(cmd, shell=True, cwd=cwd, env=e, capture_output=True, text=True)
    return p.returncode, p.stdout + p.stderr
scratch = tempfile.mkdtemp(prefix="vfseed-", dir="/tmp")
meta = {"seed": sid, "breaks": props[0], "source": f"sub-agent worktree {wt} seed{n}"}
if STORED:
    meta["breaks"], meta["source"] = old_meta["breaks"], old_meta["source"]
try:
    shutil.copytree("/repo/python", f"{scratch}/python", ignore=shutil.ignore_patterns("__pycache__", "*.egg-info"))
    shutil.copytree("/repo/tests", f"{scratch}/tests", ignore=shutil.ignore_patterns("__pycache__"))
    # demos written by the agents sometimes assert that the library is imported from their own worktree
    import re as _re
    _src = open(demo_file).read()
    _src = _re.sub(r"^(\s*)assert [^\n]*startswith\([\"']/tmp/wt-[^\n]*$", r"\1pass  # (worktree path assertion removed)", _src, flags=_re.M)
    demo = f"{scratch}/demo_under_test.py"
    open(demo, "w").write(_src)
    env = {"PYTHONPATH": f"{scratch}/python", "PYTHONDONTWRITEBYTECODE": "1"}
    rc0, out0 = run(f"/venv/bin/python {demo}", env=env, cwd=scratch)
    rc, out = run(f"patch -p1 < {patch_file}", cwd=scratch)
    assert rc == 0, out
    rct, outt = run("/venv/bin/python -m pytest -q -p no:cacheprovider tests 2>&1 | tail -2", env=env, cwd=scratch)
    rc1, out1 = run(f"/venv/bin/python {demo}", env=env, cwd=scratch)
    meta["tests_pass_with_change"] = " passed" in outt and "failed" not in outt
    meta["demo_without_change_exit"] = rc0
    meta["demo_with_change_exit"] = rc1
    meta["demo_with_change_output"] = out1[-600:]
    meta["checks"] = dict(old_meta.get("checks", {})) if STORED else {}
    for pid in props:
        t0 = time.time()
        rc, log = run(f"./run_check {pid} --tier quick --no-evidence", env={"VERIF_REPO_PYTHON": f"{scratch}/python"}, cwd=ROOT)
        viol = [l for l in log.splitlines() if l.startswith("VIOLATION")]
        first = [l.strip()[:400] for l in log.splitlines() if l.startswith("  ")][:1]
        meta["checks"][pid] = {"exit": rc, "caught": rc == 1 and bool(viol), "wall_s": round(time.time() - t0, 1), "first": first[0] if first else ""}
        if rc == 2: meta["checks"][pid]["harness"] = log[-500:]
    meta["what_was_run"] = "scratch copy of /repo python+tests; patch -p1; pytest tests; demo before/after; ./run_check <ID> --tier quick with VERIF_REPO_PYTHON=<scratch>/python"
    ok = meta["tests_pass_with_change"] and rc0 == 0 and rc1 != 0
    meta["confirmed"] = ok
    if ok:
        d = f"{ROOT}/seeded/{sid}"; os.makedirs(d, exist_ok=True)
        if not STORED:
            shutil.copy(patch_file, f"{d}/patch.diff"); shutil.copy(demo, f"{d}/demo.py")
            if os.path.exists(notes_file):
                shutil.copy(notes_file, f"{d}/notes.md")
        if os.path.exists(f"{d}/notes.md"):
            meta["needs_to_manifest"] = open(f"{d}/notes.md").read()[:1500]
        if STORED:
            merged = dict(old_meta.get("checks", {})); merged.update(meta["checks"]); meta["checks"] = merged
        json.dump(meta, open(f"{d}/meta.json", "w"), indent=1)
    print(json.dumps({k: v for k, v in meta.items() if k not in ("needs_to_manifest", "demo_with_change_output")}, indent=1))
finally:
    shutil.rmtree(scratch, ignore_errors=True)
