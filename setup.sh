#!/bin/bash
# Offline setup: the only third-party need beyond the repository's own environment is Hypothesis.
/venv/bin/python -c 'import hypothesis' 2>/dev/null && { echo "hypothesis present"; exit 0; }
PIP_NO_INDEX=1 /venv/bin/pip install --no-index --find-links /opt/veriftools/wheels hypothesis
