#!/bin/bash
# Offline setup: the only third-party need beyond the repository's own environment is Hypothesis (and, for the
# coverage-guided part of the thorough tier, atheris - installed beside the checks under /verif/.deps, never into /venv).
cd "$(dirname "$0")" || exit 2
if ! /venv/bin/python -c 'import hypothesis' 2>/dev/null; then
  PIP_NO_INDEX=1 /venv/bin/pip install --no-index --find-links /opt/veriftools/wheels hypothesis || exit 1
else
  echo "hypothesis present"
fi
if ! PYTHONPATH="$PWD/.deps" /venv/bin/python -c 'import atheris' 2>/dev/null; then
  PIP_NO_INDEX=1 /venv/bin/pip install --no-index --find-links /opt/veriftools/wheels --target "$PWD/.deps" atheris >/dev/null 2>&1 \
    && echo "atheris installed under .deps" || echo "atheris not available (thorough tier runs without the coverage-guided part)"
else
  echo "atheris present"
fi
exit 0
