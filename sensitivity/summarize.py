"""Summarise sensitivity/RESULTS.jsonl (last result per mutant and property) into sensitivity/RESULTS.md."""
import json, os, sys
HERE = os.path.dirname(os.path.abspath(__file__))
sys.path.insert(0, HERE)
from catalogue import MUTANTS
last = {}
for line in open(os.path.join(HERE, "RESULTS.jsonl")):
    try:
        r = json.loads(line)
    except Exception:
        continue
    if "results" not in r:
        continue
    d = last.setdefault(r["id"], {"tests_pass": r.get("tests_pass"), "results": {}})
    d["tests_pass"] = r.get("tests_pass")
    d["results"].update(r["results"])
rows = []
for m in MUTANTS:
    r = last.get(m["id"], {"tests_pass": None, "results": {}})
    exp = m["props"]
    killed = [p for p in exp if r["results"].get(p, {}).get("killed")]
    missed = [p for p in exp if p in r["results"] and not r["results"][p]["killed"]]
    notrun = [p for p in exp if p not in r["results"]]
    rows.append((m["id"], m["what"], r["tests_pass"], exp, killed, missed, notrun))
with open(os.path.join(HERE, "RESULTS.md"), "w") as f:
    f.write("# Planted mutants: last result per (mutant, property) at the quick tier\n\n")
    f.write("`repo tests pass` = the mutant survives the repository's own 82 tests (a realistic, test-passing breakage).  Mutants with no expected property are behaviour-preserving for the listed properties (see `what`); they document that the checks stay quiet.\n\n")
    f.write("| mutant | repo tests pass | expected | killed by | survived | what |\n|---|---|---|---|---|---|\n")
    for mid, what, tp, exp, killed, missed, notrun in rows:
        f.write(f"| {mid} | {tp} | {', '.join(exp) or '-'} | {', '.join(killed) or '-'} | {', '.join(missed + ['(not run) ' + p for p in notrun]) or '-'} | {what[:160]} |\n")
    total = sum(len(r[3]) for r in rows); k = sum(len(r[4]) for r in rows)
    f.write(f"\nkilled {k} of {total} expected (mutant, property) pairs; {sum(1 for r in rows if r[2])} of {len(rows)} mutants pass the repository tests.\n")
print(open(os.path.join(HERE, "RESULTS.md")).read()[-300:])
