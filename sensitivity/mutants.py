"""Sensitivity runs: apply a small source edit to a scratch copy of /repo, make sure the repository's own tests still
pass there (otherwise the edit is not a realistic 'compiles and passes the tests' breakage), run the quick check(s)
against the copy and record killed / survived.  The scratch copy is removed afterwards.

usage: /venv/bin/python sensitivity/mutants.py [--only ID[,ID...]] [--props C01,C05] [--tier quick] [--keep]
Results are appended to sensitivity/RESULTS.jsonl and summarised on stdout.
"""
from __future__ import annotations

import argparse
import json
import os
import shutil
import subprocess
import sys
import tempfile
import time

HERE = os.path.dirname(os.path.abspath(__file__))
ROOT = os.path.dirname(HERE)
sys.path.insert(0, HERE)

from catalogue import MUTANTS  # noqa: E402

P = "python/lsst/daf/relation/"


def run(cmd, env=None, cwd=None, timeout=1800):
    e = dict(os.environ)
    e.update(env or {})
    p = subprocess.run(cmd, shell=True, cwd=cwd, env=e, capture_output=True, text=True, timeout=timeout)
    return p.returncode, p.stdout + p.stderr


def main():
    ap = argparse.ArgumentParser()
    ap.add_argument("--only")
    ap.add_argument("--props")
    ap.add_argument("--tier", default="quick")
    ap.add_argument("--keep", action="store_true")
    ap.add_argument("--seed", default="1")
    a = ap.parse_args()
    only = set(a.only.split(",")) if a.only else None
    props = set(a.props.split(",")) if a.props else None
    out = []
    for m in MUTANTS:
        if only and m["id"] not in only:
            continue
        targets = [p for p in m["props"] if not props or p in props]
        if not targets:
            continue
        scratch = tempfile.mkdtemp(prefix="vfmut-", dir="/tmp")
        try:
            shutil.copytree("/repo/python", os.path.join(scratch, "python"), ignore=shutil.ignore_patterns("__pycache__", "*.egg-info"))
            shutil.copytree("/repo/tests", os.path.join(scratch, "tests"), ignore=shutil.ignore_patterns("__pycache__"))
            path = os.path.join(scratch, P + m["file"])
            src = open(path).read()
            if src.count(m["old"]) != 1:
                out.append({"id": m["id"], "status": f"PATCH-FAILED (old text occurs {src.count(m['old'])} times)"})
                print(out[-1])
                continue
            open(path, "w").write(src.replace(m["old"], m["new"]))
            env = {"PYTHONPATH": os.path.join(scratch, "python"), "PYTHONDONTWRITEBYTECODE": "1"}
            rc, log = run("/venv/bin/python -m pytest -q -x -p no:cacheprovider tests 2>&1 | tail -3", env=env, cwd=scratch)
            tests_pass = " passed" in log and "failed" not in log and "error" not in log.lower()
            rec = {"id": m["id"], "what": m["what"], "tests_pass": tests_pass, "results": {}}
            if not tests_pass:
                rec["tests_tail"] = log[-300:]
            for pid in targets:
                t0 = time.time()
                rc, log = run(
                    f"./run_check {pid} --tier {a.tier} --no-evidence",
                    env={"VERIF_REPO_PYTHON": os.path.join(scratch, "python"), "VERIF_SEED": a.seed},
                    cwd=ROOT,
                )
                viol = [l for l in log.splitlines() if l.startswith("VIOLATION")]
                kinds = [l.strip()[:160] for l in log.splitlines() if l.startswith("  ")][:1]
                rec["results"][pid] = {
                    "exit": rc,
                    "killed": rc == 1 and bool(viol),
                    "wall_s": round(time.time() - t0, 1),
                    "first": kinds[0] if kinds else "",
                }
                if rc == 2:
                    rec["results"][pid]["harness"] = log[-600:]
            out.append(rec)
            print(json.dumps(rec)[:600], flush=True)
        finally:
            if not a.keep:
                shutil.rmtree(scratch, ignore_errors=True)
    with open(os.path.join(HERE, "RESULTS.jsonl"), "a") as f:
        for r in out:
            r["tier"] = a.tier
            f.write(json.dumps(r) + "\n")
    killed = sum(1 for r in out for v in r.get("results", {}).values() if v["killed"])
    total = sum(len(r.get("results", {})) for r in out)
    print(f"killed {killed}/{total} (mutant, property) pairs")


if __name__ == "__main__":
    main()
